"""C43 ELF files round-trip through parse and build.

Inputs are built at check time by the local toolchain from generated C sources (gcc x86-64
executables / PIE / static / shared / relocatable, gcc -m32, clang-14 cross objects for ARM, Thumb,
AArch64 LE/BE, MIPS BE/LE/64, PowerPC 32/64 BE/LE, MSP430, RISC-V, plus strip / objcopy variants).
Oracle 1: bytes(ELF(data)) == data.  Oracle 2: after same-size edits of section contents
(content assignment, in-place patch, virt.set) the serialised file, read by an independent
struct-based reader and re-parsed by miasm, has the same sections, segments, symbols, dynamic
entries and relocations, with exactly the edited contents changed.
"""
import hashlib
import os
import subprocess

from vf import common

CHECK = dict(
    id="C43", level="exploration",
    rule=("ELF files produced at check time: ~45 toolchain variants (compiler, target, link mode, "
          "post-processing by strip/objcopy) x randomly generated C sources and flags; every file is "
          "parsed and re-serialised, then 1-3 edit sessions (1-3 same-size edits each of PROGBITS-like "
          "section contents by content assignment, in-place patch or virt.set; half of the sessions also "
          "serialise the object before the first edit and between edits) are serialised, "
          "re-parsed and compared; a variant that fails to build is counted and skipped; distinct = "
          "distinct file contents (sha1); non-trivial = every accepted file"),
    assumptions=["vf/models/c43_elfread.py (struct-based reader) is the definition of the sections, "
                 "segments, symbols, dynamic entries and relocations present in a file",
                 "the local toolchain produces well-formed ELF files"],
    timeout={"quick": 900, "thorough": 3000},
    exhaustive={"quick": False, "thorough": False},
    technique="runtime monitoring: byte identity and structural differential against an independent reader",
)

CROSS = ["arm-none-eabi", "armeb-none-eabi", "thumbv7m-none-eabi", "aarch64-none-elf", "aarch64_be-none-elf",
         "mips-none-elf", "mipsel-none-elf", "mips64-none-elf", "mips64el-none-elf", "powerpc-none-elf",
         "powerpc64-none-elf", "powerpc64le-none-elf", "msp430-none-elf", "riscv32-none-elf",
         "riscv64-none-elf", "i386-none-elf", "x86_64-none-elf"]
REQUIRED_CROSS = ["arm-none-eabi", "aarch64-none-elf", "aarch64_be-none-elf", "mips-none-elf",
                  "mipsel-none-elf", "powerpc-none-elf", "powerpc64-none-elf"]

HOSTED = ["exe_nopie", "exe_pie", "exe_static", "exe_static_pie", "so", "so_sysv", "exe_g", "exe_zdebug",
          "exe_strip", "so_strip", "exe_addsec", "exe_keepdebug", "exe_clang", "exe_tls", "exe_adjsec"]
OBJ64 = ["o", "o_g", "o_fsec", "o_pic", "o_strip_unneeded", "ld_r", "cpp_o", "o_O0"]
M32 = ["o32", "o32_g", "exe32_nostdlib", "so32_nostdlib"]
KINDS = HOSTED + OBJ64 + M32 + ["cross:" + t for t in CROSS]


def shards(tier, seed, scale):
    rounds = 3 if tier == "quick" else 36
    rounds = max(1, int(rounds * scale))
    n = 16
    out = []
    import random
    for i in range(n):
        out.append(dict(seed=seed, shard=i, nshards=n, tier=tier, hashseed=0 if i % 2 == 0 else 1 + (seed * 7919 + i) % 4000000,
                        kinds=[]))
    for r in range(rounds):
        rng = random.Random("c43/%d/%d" % (seed, r))
        ks = list(KINDS)
        rng.shuffle(ks)
        for j, k in enumerate(ks):
            out[(j + r) % n]["kinds"].append(k)
    return out


# ------------------------------------------------------------------ C source generator

def gen_source(rng, flavour, tls=False, adj=0):
    """flavour: 'hosted' (main, libc), 'obj' (freestanding, undefined externs allowed),
    'freelink' (freestanding, self-contained, _start)"""
    L = []
    if flavour == "hosted":
        L.append("#include <stdio.h>\n#include <string.h>")
    nglob = rng.randint(1, 6)
    nfun = rng.randint(1, 7)
    gl = []
    for i in range(nglob):
        k = rng.choice(["int", "arr", "str", "ctab", "bss", "sarr", "ptr"])
        if k == "int":
            L.append("int g%d = %d;" % (i, rng.randint(-30000, 30000)))
            gl.append("g%d" % i)
        elif k == "arr":
            n = rng.randint(2, 40)
            L.append("int a%d[%d] = {%s};" % (i, n, ", ".join(str(rng.randint(0, 999)) for _ in range(n))))
            gl.append("a%d[%d]" % (i, rng.randrange(n)))
        elif k == "str":
            L.append('const char *m%d = "%s";' % (i, "".join(rng.choice("abcdefghij klmnop%d") for _ in range(rng.randint(1, 30)))))
            gl.append("m%d[0]" % i)
        elif k == "ctab":
            n = rng.randint(2, 20)
            L.append("static const short c%d[%d] = {%s};" % (i, n, ", ".join(str(rng.randint(0, 99)) for _ in range(n))))
            gl.append("c%d[%d]" % (i, rng.randrange(n)))
        elif k == "bss":
            n = rng.randint(1, 300)
            L.append("int b%d[%d];" % (i, n))
            gl.append("b%d[%d]" % (i, rng.randrange(n)))
        elif k == "sarr":
            n = rng.randint(1, 64)
            L.append("static char s%d[%d];" % (i, n))
            gl.append("s%d[%d]" % (i, rng.randrange(n)))
        else:
            L.append("int pv%d = %d; int *p%d = &pv%d;" % (i, rng.randint(0, 9), i, i))
            gl.append("*p%d" % i)
    if tls:
        L.append("__thread int tl0 = %d; __thread int tl1; __thread char tl2[%d];" % (
            rng.randint(1, 9), rng.randint(1, 40)))
        gl += ["tl0", "tl1", "tl2[0]"]
    next_ = 0
    if flavour == "obj":
        next_ = rng.randint(0, 3)
        for i in range(next_):
            L.append("extern int ext%d(int);" % i)
    names = []
    for i in range(nfun):
        static = "static " if rng.random() < 0.3 and i + 1 < nfun else ""
        body = []
        k = rng.choice(["lin", "switch", "loop", "call"])
        if k == "lin":
            body.append("return a * %d + b + %s;" % (rng.randint(1, 99), rng.choice(gl)))
        elif k == "switch":
            cases = sorted(rng.sample(range(0, 40), rng.randint(5, 9)))
            body.append("switch (a) {")
            for c in cases:
                body.append("case %d: return %d + b;" % (c, rng.randint(-999, 999)))
            body.append("default: return a ^ %s; }" % rng.choice(gl))
        elif k == "loop":
            body.append("int r = 0; for (int i = 0; i < (a & 15); i++) r += (b ^ i) + %s; return r;" % rng.choice(gl))
        else:
            if names:
                body.append("return %s(b, a) - %d;" % (rng.choice(names), rng.randint(0, 9)))
            elif next_:
                body.append("return ext%d(a) + b;" % rng.randrange(next_))
            else:
                body.append("return a - b;")
        if next_ and rng.random() < 0.4:
            body.insert(0, "b += ext%d(a);" % rng.randrange(next_))
        L.append("%sint f%d(int a, int b) { %s }" % (static, i, " ".join(body)))
        names.append("f%d" % i)
    L.append("int (*const fptab[])(int, int) = {%s};" % ", ".join(names))
    L.append("int dispatch(int i, int a, int b) { return fptab[(unsigned)i %% %d](a, b); }" % len(names))
    for i in range(adj):
        # small custom sections: the linker lays them out back to back (adjacent PROGBITS sections)
        n = rng.randint(1, 9)
        ro = i % 2 == 1
        L.append('__attribute__((section(".vf%s%d"), used, aligned(8))) %slong vf%d[%d] = {%s};' % (
            "r" if ro else "d", i, "const " if ro else "", i, n,
            ", ".join(str(rng.randint(1, 10 ** 9)) for _ in range(n))))
    if flavour == "hosted":
        L.append('int main(int argc, char **argv) { printf("%%d %%s\\n", dispatch(argc, argc, %d), argv[0]); '
                 'return (int)strlen(argv[0]); }' % rng.randint(0, 99))
    elif flavour == "freelink":
        L.append("void _start(void) { volatile int x = dispatch(1, 2, 3); (void)x; for (;;) ; }")
    return "\n".join(L) + "\n"


CPP_SRC = """
template<class T> T addt(T a, T b) { return a + b + %d; }
inline int inl(int x) { static int c; return c += x; }
struct S { virtual int v(int a) { return a + %d; } virtual ~S() {} };
int use(int a) { S s; return addt(a, 2) + inl(a) + (int)addt(1.5, 2.0) + s.v(a); }
"""


# ------------------------------------------------------------------ building

def run(cmd, cwd):
    try:
        p = subprocess.run(cmd, cwd=cwd, stdout=subprocess.PIPE, stderr=subprocess.STDOUT, timeout=120)
    except (OSError, subprocess.TimeoutExpired) as exc:
        return False, repr(exc)
    return p.returncode == 0, p.stdout.decode(errors="replace")[-400:]


def build(kind, rng, wd, idx):
    """returns (path or None, description, log)"""
    opt = rng.choice(["-O0", "-O1", "-O1", "-O2", "-Os"])
    src = os.path.join(wd, "s%d.c" % idx)
    out = os.path.join(wd, "out%d" % idx)
    tmp = os.path.join(wd, "tmp%d" % idx)

    def write(flavour, tls=False, path=src, adj=0):
        with open(path, "w") as fd:
            fd.write(gen_source(rng, flavour, tls, adj))

    steps = []
    if kind in HOSTED:
        write("hosted", tls=(kind == "exe_tls" or rng.random() < 0.15),
              adj=rng.randint(6, 14) if kind == "exe_adjsec" else (rng.randint(2, 6) if rng.random() < 0.25 else 0))
        g = ["gcc", "-w", opt, src]
        if kind == "exe_nopie":
            steps = [g + ["-no-pie", "-o", out]]
        elif kind == "exe_pie":
            steps = [g + ["-pie", "-fPIE", "-o", out]]
        elif kind == "exe_static":
            steps = [g + ["-static", "-o", out]]
        elif kind == "exe_static_pie":
            steps = [g + ["-static-pie", "-o", out]]
        elif kind == "so":
            steps = [g + ["-shared", "-fPIC", "-o", out]]
        elif kind == "so_sysv":
            steps = [g + ["-shared", "-fPIC", "-Wl,--hash-style=sysv", "-Wl,-z,norelro", "-o", out]]
        elif kind == "exe_g":
            steps = [g + ["-g", "-o", out]]
        elif kind == "exe_zdebug":
            steps = [g + ["-g", "-Wl,--compress-debug-sections=zlib", "-o", out]]
        elif kind == "exe_strip":
            steps = [g + ["-o", tmp], ["strip", "-o", out, tmp]]
        elif kind == "so_strip":
            steps = [g + ["-shared", "-fPIC", "-o", tmp], ["strip", "-s", "-R", ".comment", "-o", out, tmp]]
        elif kind == "exe_addsec":
            steps = [g + ["-o", tmp], ["objcopy", "--add-section", ".mysec=" + src, tmp, out]]
        elif kind == "exe_keepdebug":
            steps = [g + ["-g", "-o", tmp], ["objcopy", "--only-keep-debug", tmp, out]]
        elif kind == "exe_clang":
            steps = [["clang-14", "-w", opt, src, "-o", out]]
        elif kind == "exe_adjsec":
            steps = [g + [rng.choice(["-no-pie", "-pie", "-static"]), "-o", out]]
        elif kind == "exe_tls":
            steps = [g + [rng.choice(["-no-pie", "-pie"]), "-o", out]]
    elif kind in OBJ64:
        write("obj", tls=rng.random() < 0.2)
        g = ["gcc", "-w", opt, "-c", src]
        if kind == "o":
            steps = [g + ["-o", out]]
        elif kind == "o_g":
            steps = [g + ["-g", "-o", out]]
        elif kind == "o_fsec":
            steps = [g + ["-ffunction-sections", "-fdata-sections", "-o", out]]
        elif kind == "o_pic":
            steps = [g + ["-fPIC", "-o", out]]
        elif kind == "o_O0":
            steps = [["gcc", "-w", "-O0", "-c", src, "-o", out]]
        elif kind == "o_strip_unneeded":
            steps = [g + ["-o", tmp], ["objcopy", "--strip-unneeded", tmp, out]]
        elif kind == "ld_r":
            src2 = os.path.join(wd, "t%d.c" % idx)
            with open(src2, "w") as fd:
                fd.write("int second_%d(int x) { return x + %d; }\nint second_data_%d[3] = {1, 2, 3};\n" % (
                    idx, rng.randint(0, 99), idx))
            steps = [g + ["-o", tmp + ".1.o"], ["gcc", "-w", opt, "-c", src2, "-o", tmp + ".2.o"],
                     ["ld", "-r", tmp + ".1.o", tmp + ".2.o", "-o", out]]
        elif kind == "cpp_o":
            src = os.path.join(wd, "s%d.cpp" % idx)
            with open(src, "w") as fd:
                fd.write(CPP_SRC % (rng.randint(0, 99), rng.randint(0, 99)))
            steps = [["g++", "-w", opt, "-c", src, "-o", out]]
    elif kind in M32:
        if kind in ("o32", "o32_g"):
            write("obj")
            steps = [["gcc", "-m32", "-w", opt, "-ffreestanding", "-c", src, "-o", out] +
                     (["-g"] if kind == "o32_g" else [])]
        elif kind == "exe32_nostdlib":
            write("freelink")
            steps = [["gcc", "-m32", "-w", opt, "-ffreestanding", "-fno-stack-protector", "-nostdlib", "-static",
                      src, "-o", out]]
        else:
            write("freelink")
            steps = [["gcc", "-m32", "-w", opt, "-ffreestanding", "-fno-stack-protector", "-nostdlib", "-shared",
                      "-fPIC", src, "-o", out]]
    else:
        target = kind.split(":", 1)[1]
        write("obj")
        flags = [opt]
        if rng.random() < 0.3:
            flags.append("-g")
        if rng.random() < 0.3 and not target.startswith("msp430"):
            flags.append("-fPIC")
        if rng.random() < 0.3:
            flags += ["-ffunction-sections", "-fdata-sections"]
        post = rng.choice(["none", "none", "none", "strip", "addsec", "stripdebug"])
        first = tmp if post != "none" else out
        steps = [["clang-14", "--target=" + target, "-w", "-ffreestanding", "-c", src, "-o", first] + flags]
        if post == "strip":
            steps.append(["llvm-strip-14", "--strip-unneeded", "-o", out, tmp])
        elif post == "stripdebug":
            steps.append(["llvm-strip-14", "--strip-debug", "-o", out, tmp])
        elif post == "addsec":
            steps.append(["llvm-objcopy-14", "--add-section", ".verif.extra=" + src, tmp, out])
        kind = kind + ("+" + post if post != "none" else "")
    log = ""
    for st in steps:
        ok, log = run(st, wd)
        if not ok:
            return None, kind, "%s: %s" % (" ".join(st[:4]), log)
    if not os.path.exists(out):
        return None, kind, "no output"
    return out, kind, ""


# ------------------------------------------------------------------ miasm view

EDITABLE_TYPES = (1, 14, 15, 16)     # PROGBITS, INIT_ARRAY, FINI_ARRAY, PREINIT_ARRAY


def miasm_view(e):
    from miasm.loader import elf_init
    v = dict(sections=[], segments=[], symtabs={}, dynamic={}, relocs={})
    shf = ("name", "type", "flags", "addr", "offset", "size", "link", "info", "addralign", "entsize")
    for i, s in enumerate(e.sh.shlist):
        d = dict((f, getattr(s.sh.cstr, f)) for f in shf)
        d["name_str"] = bytes(s.sh.name).decode("latin-1")
        d["cls"] = type(s).__name__
        d["sha"] = hashlib.sha1(b"" if isinstance(s, elf_init.NoBitsSection) else bytes(s.content)).hexdigest()
        v["sections"].append(d)
        if isinstance(s, elf_init.SymTable):
            v["symtabs"][str(i)] = [[bytes(y.name).decode("latin-1"), y.value, y.size, y.info, y.other, y.shndx]
                                    for y in s.symtab]
        elif isinstance(s, elf_init.Dynamic):
            v["dynamic"][str(i)] = [[y.cstr.type, y.cstr.name] for y in s.dyntab]
        elif isinstance(s, elf_init.RelTable):
            v["relocs"][str(i)] = [[r.cstr.offset, r.cstr.info] + ([r.cstr.addend] if hasattr(r.cstr, "addend") else [])
                                   for r in s.reltab]
    phf = ("type", "flags", "offset", "vaddr", "paddr", "filesz", "memsz", "align")
    for p in e.ph.phlist:
        v["segments"].append(dict((f, getattr(p.ph.cstr, f)) for f in phf))
    return v


def diff_views(a, b, changed):
    """first difference between two views; `changed` maps section index -> expected new sha"""
    for part in ("segments", "symtabs", "dynamic", "relocs"):
        if a[part] != b[part]:
            return part
    if len(a["sections"]) != len(b["sections"]):
        return "number of sections"
    for i, (x, y) in enumerate(zip(a["sections"], b["sections"])):
        x = dict(x)
        if i in changed:
            if y.get("sha") != changed[i]:
                return "contents of the edited section"
            x["sha"] = changed[i]
        if x != y:
            k = [f for f in x if x[f] != y.get(f)]
            return "section header/contents (%s)" % ",".join(sorted(k))
    return None


def adjacent_runs(e, etype):
    """runs of PROGBITS sections that are adjacent in the address space and own their addresses
    alone (index lists, length >= 2)"""
    from miasm.loader import elf_init
    if etype not in (2, 3):
        return []
    secs = [(i, s) for i, s in enumerate(e.sh.shlist) if s.sh.size > 0]
    alloc = sorted([(s.sh.addr, i, s) for i, s in secs if s.sh.addr and (s.sh.flags & 2)], key=lambda t: t[:2])

    def good(i, s):
        if s.sh.type != 1 or not isinstance(s, elf_init.ProgBits) or s.sh.size > (1 << 18):
            return False
        for j, t in secs:
            if j != i and t.sh.addr < s.sh.addr + s.sh.size and s.sh.addr < t.sh.addr + t.sh.size:
                return False
        return True
    runs, cur = [], []
    for addr, i, s in alloc:
        if good(i, s) and cur and e.sh.shlist[cur[-1]].sh.addr + e.sh.shlist[cur[-1]].sh.size == addr:
            cur.append(i)
            continue
        if len(cur) >= 2:
            runs.append(cur)
        cur = [i] if good(i, s) else []
    if len(cur) >= 2:
        runs.append(cur)
    return runs


def check_file(path, kind, rng, rec):
    from miasm.loader.elf_init import ELF
    from miasm.loader import elf_init
    from vf.models import c43_elfread as R
    data = open(path, "rb").read()
    base_kind = kind.split("+")[0]
    wit = dict(kind=kind, size=len(data), sha1=hashlib.sha1(data).hexdigest())
    try:
        ref = R.read(data)
    except Exception as exc:
        rec.count("reader_rejected")
        return
    rec.ev()
    try:
        e = ELF(data)
    except Exception as exc:
        rec.count("rejected_by_loader:" + base_kind)
        return
    rec.count("accepted")
    rec.count("kind:" + base_kind)
    etype = {1: "REL", 2: "EXEC", 3: "DYN"}.get(ref["ehdr"]["type"], "T%d" % ref["ehdr"]["type"])
    cls = "ELF%d-%s-%s" % (ref["cls"], "LSB" if ref["enc"] == 1 else "MSB", etype)
    rec.count("class:" + cls)
    rec.count("machine:%d" % ref["ehdr"]["machine"])
    rec.distinct(wit["sha1"])
    wit["class"] = cls
    if len(rec.samples) < 4:
        rec.sample(dict(wit, sections=len(ref["sections"]), segments=len(ref["segments"])))
    # ---- oracle 1: byte identity
    try:
        b = bytes(e)
    except Exception as exc:
        rec.fail("serialisation raises %s" % type(exc).__name__, repr(exc), wit)
        return
    rec.count("roundtrip_compared")
    if b != data:
        n = min(len(b), len(data))
        first = next((i for i in range(n) if b[i] != data[i]), n)
        region = R.region_of(data, first)
        rec.fail("unmodified round trip differs: %s" % region,
                 "bytes(ELF(data)) != data at offset %#x (%d vs %d bytes), %s" % (first, len(b), len(data), cls),
                 dict(wit, offset=first, got=b[first:first + 16].hex(), want=data[first:first + 16].hex()))
        return
    rec.count("roundtrip_identical")
    view0 = miasm_view(e)

    # ---- oracle 2: same-size edits
    nsessions = 1 if len(data) > 300000 else rng.choice([1, 2, 3])
    runs0 = adjacent_runs(e, ref["ehdr"]["type"])
    if runs0:
        rec.count("files_with_adjacent_progbits_runs")
        rec.count("longest_adjacent_run:%d" % min(8, max(len(r) for r in runs0)))
    plan = ["mixed"] * nsessions + (["span"] * (1 if len(data) > 300000 else 2) if runs0 else [])
    for session_kind in plan:
        try:
            e = ELF(data)
        except Exception as exc:
            rec.fail("second parse raises %s" % type(exc).__name__, repr(exc), wit)
            return
        runs = adjacent_runs(e, ref["ehdr"]["type"])
        cands = [i for i, s in enumerate(e.sh.shlist)
                 if s.sh.type in EDITABLE_TYPES and s.sh.size > 0 and isinstance(s, elf_init.Section)]
        if not cands:
            rec.count("no_editable_section")
            return
        expected = bytearray(data)
        new_content = {}
        ops = []
        # history on one object: the file may be serialised before the edits and between them (a tool that
        # saves, patches, saves again); the last serialisation is the one compared
        serialise_between = rng.random() < 0.5
        if serialise_between:
            try:
                if bytes(e) != data:
                    rec.fail("second unmodified serialisation of a fresh parse differs", cls, wit)
                    return
            except Exception as exc:
                rec.fail("serialisation raises %s" % type(exc).__name__, repr(exc), wit)
                return
            rec.count("sessions_serialised_before_edit")
        for _ in range(rng.choice([1, 1, 2, 3])):
            if serialise_between and ops and rng.random() < 0.5:
                try:
                    bytes(e)
                    ops.append(("serialise",))
                except Exception as exc:
                    rec.fail("serialisation raises %s" % type(exc).__name__, repr(exc), dict(wit, edits=ops))
                    return
            if runs and (session_kind == "span" or rng.random() < 0.15):
                # ---- one virtual write over 2, 3 or more adjacent sections
                run = rng.choice(runs)
                big = [r for r in runs if len(r) >= 3]
                if big and rng.random() < 0.7:
                    run = rng.choice(big)
                k = 2 if len(run) == 2 else rng.choice([2, 3, 3, len(run), rng.randint(3, len(run))])
                j = rng.randrange(0, len(run) - k + 1)
                idxs = run[j:j + k]
                ss = [e.sh.shlist[x] for x in idxs]
                curs = [new_content.get(x, bytes(expected[t.sh.offset:t.sh.offset + t.sh.size]))
                        for x, t in zip(idxs, ss)]
                off0 = rng.randrange(ss[0].sh.size) if rng.random() < 0.8 else 0
                endoff = rng.randint(1, ss[-1].sh.size) if rng.random() < 0.8 else ss[-1].sh.size
                total = (ss[0].sh.size - off0) + sum(t.sh.size for t in ss[1:-1]) + endoff
                patch = rng.randbytes(total)
                start = ss[0].sh.addr + off0
                news, pos = [], 0
                for n_, (t, c) in enumerate(zip(ss, curs)):
                    if n_ == 0:
                        take = t.sh.size - off0
                        news.append(c[:off0] + patch[:take])
                    elif n_ == k - 1:
                        take = endoff
                        news.append(patch[pos:pos + take] + c[endoff:])
                    else:
                        take = t.sh.size
                        news.append(patch[pos:pos + take])
                    pos += take
                names_ = [view0["sections"][x]["name_str"] for x in idxs]
                cls_ = "2" if k == 2 else ">=3"
                try:
                    if rng.random() < 0.5:
                        e.virt.set(start, patch)
                    else:
                        e.virt[start] = patch
                    back = e.virt.get(start, start + total)
                except Exception as exc:
                    rec.fail("virtual write over %s adjacent sections raises %s" % (cls_, type(exc).__name__),
                             repr(exc), dict(wit, sections=names_, start=hex(start), len=total))
                    return
                rec.count("virt_readback")
                rec.count("edit:virt_span")
                rec.count("virt_span_sections:%d" % min(k, 8))
                if k >= 3:
                    rec.count("virt_span_sections>=3")
                if back != patch:
                    rec.fail("virtual write over %s adjacent sections then virt.get differ" % cls_,
                             "wrote %d bytes at %#x over %s" % (total, start, names_),
                             dict(wit, sections=names_, start=hex(start), len=total))
                ops.append(("virt_span", names_, off0, total))
                for x, t, nw in zip(idxs, ss, news):
                    assert len(nw) == t.sh.size
                    new_content[x] = nw
                    expected[t.sh.offset:t.sh.offset + t.sh.size] = nw
                continue
            i = rng.choice(cands)
            s = e.sh.shlist[i]
            cur = new_content.get(i, bytes(expected[s.sh.offset:s.sh.offset + s.sh.size]))
            size = s.sh.size
            op = rng.choice(["assign", "patch", "virt"])
            if op == "virt" and not (ref["ehdr"]["type"] in (2, 3) and s.sh.addr and (s.sh.flags & 2)
                                     and s.sh.type == 1):
                op = "patch"
            off = rng.randrange(size)
            ln = rng.randint(1, min(size - off, 64))
            if rng.random() < 0.2:
                off, ln = 0, size if size < 4096 else 64
            if rng.random() < 0.15:
                off = size - ln
            patch = bytes(rng.getrandbits(8) for _ in range(ln))
            if op == "virt":
                # the address must belong to this section only (.tbss shares addresses with its successor)
                owners = [j for j, t in enumerate(e.sh.shlist)
                          if t.sh.addr <= s.sh.addr + off < t.sh.addr + t.sh.size]
                end_owner = [j for j, t in enumerate(e.sh.shlist)
                             if t.sh.addr <= s.sh.addr + off + ln - 1 < t.sh.addr + t.sh.size]
                if owners != [i] or end_owner != [i]:
                    op = "patch"
            new = cur[:off] + patch + cur[off + ln:]
            try:
                if op == "assign":
                    s.content = new
                elif op == "patch":
                    s.content[off] = patch
                else:
                    e.virt.set(s.sh.addr + off, patch)
                    back = e.virt.get(s.sh.addr + off, s.sh.addr + off + ln)
                    rec.count("virt_readback")
                    if back != patch:
                        rec.fail("virt.set then virt.get differ", "wrote %d bytes at %#x of %s" % (
                            ln, s.sh.addr + off, view0["sections"][i]["name_str"]),
                            dict(wit, section=view0["sections"][i]["name_str"], off=off, len=ln))
            except Exception as exc:
                rec.fail("edit %s raises %s" % (op, type(exc).__name__), repr(exc),
                         dict(wit, section=view0["sections"][i]["name_str"], off=off, len=ln))
                return
            rec.count("edit:" + op)
            rec.count("edit_section_type:%d" % s.sh.type)
            ops.append((op, view0["sections"][i]["name_str"], off, ln))
            new_content[i] = new
            expected[s.sh.offset:s.sh.offset + size] = new
        expected = bytes(expected)
        w2 = dict(wit, edits=ops)
        try:
            b2 = bytes(e)
            e2 = ELF(b2)
            view2 = miasm_view(e2)
        except Exception as exc:
            rec.fail("serialise/re-parse after edit raises %s" % type(exc).__name__, repr(exc), w2)
            return
        rec.count("edit_sessions")
        changed = dict((i, hashlib.sha1(c).hexdigest()) for i, c in new_content.items())
        d = diff_views(view0, view2, changed)
        if d:
            rec.fail("after same-size edit, re-parse differs: %s" % d,
                     "miasm's view of ELF(bytes(edited)) vs view of the original", w2)
            continue
        # independent reader on the serialised bytes
        try:
            ref2 = R.read(b2)
        except Exception as exc:
            rec.fail("after same-size edit, serialised file unreadable", repr(exc), w2)
            continue
        d = diff_views(ref, ref2, changed)
        if d or ref["ehdr"] != ref2["ehdr"]:
            rec.fail("after same-size edit, serialised file differs: %s" % (d or "ELF header"),
                     "independent reader on bytes(edited) vs on the original", w2)
            continue
        if b2 != expected:
            n = min(len(b2), len(expected))
            first = next((k for k in range(n) if b2[k] != expected[k]), n)
            region = R.region_of(data, first)
            if region == "bytes not covered by any header or section":
                rec.count("edit_changed_uncovered_bytes")
            else:
                rec.fail("after same-size edit, bytes differ outside the edit: %s" % region,
                         "offset %#x" % first, dict(w2, offset=first))
            continue
        rec.count("edit_sessions_identical_outside_edit")


def run_shard(params, rec):
    common.quiet()
    common.limit_memory(4)
    from vf.models import cpulimit
    cpulimit.install()
    rng = common.rng_for(params)
    scratch = os.environ.get("VERIF_SCRATCH_DIR") or os.environ["TMPDIR"]
    wd = os.path.join(scratch, "c43_%s_%s" % (params.get("seed", 0), params["shard"]))
    os.makedirs(wd, exist_ok=True)
    for idx, kind in enumerate(params["kinds"]):
        kind = str(kind)
        path, kdesc, log = build(kind, rng, wd, idx)
        if path is None:
            rec.count("toolchain_failed:" + kind)
            rec.extra.setdefault("toolchain_failures", {})[kind] = log[-300:]
            continue
        rec.count("built")
        rec.count("built:" + kind)
        try:
            with cpulimit.cpu_limit(120):
                check_file(path, kdesc, rng, rec)
        except cpulimit.CpuTimeout:
            # not a verdict: the file is skipped, the floors decide whether enough was observed
            rec.count("cpu_budget_exceeded:" + kind)
        for f in os.listdir(wd):
            try:
                os.unlink(os.path.join(wd, f))
            except OSError:
                pass


def floors(tier, counters, evaluations):
    miss = []
    if counters.get("sessions_serialised_before_edit", 0) < 0.2 * counters.get("edit_sessions", 0):
        miss.append("fewer than 20% of the edit sessions serialise the object before editing it")
    built_kinds = [k for k in KINDS if counters.get("kind:" + k, 0) > 0]
    if len(built_kinds) < 30:
        miss.append("only %d of %d toolchain variants produced an accepted file" % (len(built_kinds), len(KINDS)))
    for k in ["exe_nopie", "exe_pie", "exe_static", "so", "o"] + ["cross:" + t for t in REQUIRED_CROSS]:
        if counters.get("kind:" + k, 0) == 0:
            miss.append("variant %s never built and accepted" % k)
    if not any(counters.get("kind:" + k, 0) for k in M32):
        miss.append("no 32-bit x86 variant built")
    for c in ("ELF64-LSB-EXEC", "ELF64-LSB-DYN", "ELF64-LSB-REL", "ELF32-LSB-REL", "ELF32-MSB-REL", "ELF64-MSB-REL"):
        if counters.get("class:" + c, 0) == 0:
            miss.append("no accepted file of class %s" % c)
    need = dict(accepted=100 if tier == "quick" else 1200, roundtrip_compared=100 if tier == "quick" else 1200,
                edit_sessions=120 if tier == "quick" else 1500)
    need["edit:assign"] = 40
    need["edit:patch"] = 40
    need["edit:virt"] = 10
    need["edit:virt_span"] = 60
    need["virt_span_sections>=3"] = 30
    need["virt_span_sections:2"] = 10
    need["kind:exe_adjsec"] = 1
    for k, v in sorted(need.items()):
        if counters.get(k, 0) < v:
            miss.append("%s = %d < %d" % (k, counters.get(k, 0), v))
    return miss
