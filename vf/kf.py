"""development aid (never called by checks): maintain known_findings.json

  python -m vf.kf known C01 "<key>" "<what>"
  python -m vf.kf fixed C01 <commit> "<what failed>"
  python -m vf.kf remove C01 "<key>"      (a known entry that no longer reproduces after a fix)
"""
import json, os, sys
ROOT = os.path.dirname(os.path.dirname(os.path.abspath(__file__)))
import fcntl
P = os.path.join(ROOT, "known_findings.json")
_lock = open(P + ".lock", "w")
fcntl.flock(_lock, fcntl.LOCK_EX)
d = json.load(open(P))
kind, pid = sys.argv[1], sys.argv[2]
if kind == "remove":
    key = sys.argv[3]
    before = len(d["findings"])
    d["findings"] = [f for f in d["findings"] if not (f.get("status") == "known" and f["property"] == pid and f["key"] == key)]
    print("removed %d" % (before - len(d["findings"])))
elif kind == "known":
    key, what = sys.argv[3], sys.argv[4]
    d["findings"] = [f for f in d["findings"] if not (f.get("status") == "known" and f["property"] == pid and f["key"] == key)]
    d["findings"].append(dict(property=pid, status="known", key=key, what=what))
else:
    commit, what = sys.argv[3], sys.argv[4]
    d["findings"].append(dict(property=pid, status="fixed", commit=commit,
                              record="fixed: property=%s %s %s" % (pid, commit, what)))
d["findings"].sort(key=lambda f: (f["property"], f["status"], f.get("key", ""), f.get("commit", "")))
json.dump(d, open(P, "w"), indent=1)
