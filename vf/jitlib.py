"""Harness for the jitter checks (C20-C23, C49): program generation per
architecture, memory maps with read-only pages and holes, run protocol,
outcome capture."""
import struct

from miasm.analysis.machine import Machine
from miasm.core.bin_stream import bin_stream_str
from miasm.core.locationdb import LocationDB
from miasm.jitter.csts import PAGE_READ, PAGE_WRITE, EXCEPT_ACCESS_VIOL

from vf import refsem

PAGE = 0x1000


class Layout(object):
    def __init__(self, small):
        if small:      # 16-bit address space
            self.CODE, self.DATA_RW, self.DATA_RO, self.HOLE, self.DATA_RW2 = \
                0x1000, 0x2000, 0x3000, 0x4000, 0x5000
        else:
            self.CODE = 0x10000
            self.DATA_RW = 0x20000      # rw page
            self.DATA_RO = 0x21000      # read-only page right after it
            self.HOLE = 0x22000         # unmapped
            self.DATA_RW2 = 0x23000     # rw page after the hole
        # small regions right after rw2: a 2-byte read-only page, 0x40 writable bytes, a 1-byte hole,
        # 0x40 writable bytes: one 32/64-bit access can touch three regions at once
        self.TINY_RO = self.DATA_RW2 + 0x1000
        self.RW3 = self.TINY_RO + 2
        self.TINY_HOLE = self.RW3 + 0x40
        self.RW4 = self.TINY_HOLE + 1
        # ... then a 2-byte page that is mapped and writable but NOT readable, and 0x40 more writable bytes
        self.TINY_WO = self.RW4 + 0x40
        self.RW5 = self.TINY_WO + 2

SUPPORTED_OPS = set("""+ * ^ & | - >> << a>> >>> <<< / % udiv umod sdiv smod ** parity cntleadzeros
cnttrailzeros == <u <=u <s <=s FLAG_EQ FLAG_EQ_AND FLAG_EQ_CMP FLAG_SIGN_SUB FLAG_SIGN_ADD FLAG_ADD_CF
FLAG_ADD_OF FLAG_SUB_CF FLAG_SUB_OF FLAG_EQ_ADDWC FLAG_EQ_SUBWC FLAG_SIGN_ADDWC FLAG_SIGN_SUBWC
FLAG_ADDWC_CF FLAG_ADDWC_OF FLAG_SUBWC_CF FLAG_SUBWC_OF CC_U<= CC_U>= CC_U< CC_U> CC_S< CC_S>= CC_S> CC_S<=
CC_EQ CC_NE CC_NEG CC_POS""".split())


def op_supported(op):
    return op in SUPPORTED_OPS or op.startswith("zeroExt_") or op.startswith("signExt_")


class ArchSpec(object):
    """per-architecture facts the harness needs"""

    def __init__(self, mname):
        self.mname = mname
        self.machine = Machine(mname)
        self.mn = self.machine.mn
        loc_db = LocationDB()
        self.lifter0 = self.machine.lifter(loc_db)
        self.attrib = self.lifter0.attrib
        self.pc_name = self.lifter0.pc.name
        self.sp_name = self.lifter0.sp.name
        self.pc_size = self.lifter0.pc.size
        self.L = Layout(self.pc_size == 16)
        self.big = mname.endswith("b") and mname not in ("x86_32b",)
        base = mname.rstrip("lb") if not mname.startswith("x86") and mname != "msp430" else mname
        self.family = base
        fam = self.family
        if fam.startswith("x86"):
            if mname == "x86_64":
                self.gprs = ["RAX", "RBX", "RCX", "RDX", "RSI", "RDI", "RBP", "R8", "R9", "R10", "R11",
                             "R12", "R13", "R14", "R15"]
            else:
                self.gprs = ["RAX", "RBX", "RCX", "RDX", "RSI", "RDI", "RBP"]
            self.flags = ["zf", "cf", "nf", "of", "pf", "af", "df"]
            self.align = 1
            self.counter = "RCX"
        elif fam in ("arm", "armt"):
            self.gprs = ["R%d" % i for i in range(13)] + ["LR"]
            self.flags = ["zf", "cf", "nf", "of"]
            self.align = 4 if fam == "arm" else 2
            self.counter = "R0"
        elif fam == "aarch64":
            self.gprs = ["X%d" % i for i in range(29)] + ["LR"]
            self.flags = ["zf", "cf", "nf", "of"]
            self.align = 4
            self.counter = "X0"
        elif fam == "mips32":
            self.gprs = ["AT", "V0", "V1", "A0", "A1", "A2", "A3", "T0", "T1", "T2", "T3", "T4", "T5",
                         "T6", "T7", "S0", "S1", "S2", "S3", "S4", "S5", "S6", "S7", "T8", "T9", "GP",
                         "FP", "RA", "R_HI", "R_LO"]
            self.flags = []
            self.align = 4
            self.counter = "A0"
        elif fam == "ppc32":
            self.gprs = ["R%d" % i for i in range(32) if i != 1] + ["CTR", "LR"]
            self.flags = ["CR0_LT", "CR0_GT", "CR0_EQ", "CR0_SO", "XER_CA", "XER_OV", "XER_SO"]
            self.align = 4
            self.counter = "R3"
        elif fam == "msp430":
            self.gprs = ["R%d" % i for i in range(4, 16)]
            self.flags = ["zf", "cf", "nf", "of"]
            self.align = 2
            self.counter = "R4"
        elif fam == "mep":
            self.gprs = ["R%d" % i for i in range(13)] + ["TP", "GP"]
            self.flags = []
            self.align = 2
            self.counter = None
        else:
            raise ValueError(mname)

    def soft_int(self):
        """bytes of a software interrupt / system call instruction (a completing exception that a
        host handler clears before the run goes on), or None"""
        import struct as _s
        fam = self.family
        end = ">" if self.big else "<"
        if fam.startswith("x86"):
            return b"\xcd\x80"
        if fam == "arm":
            return _s.pack(end + "I", 0xEF000000)
        if fam == "aarch64":
            return _s.pack(end + "I", 0xD4000001)
        if fam == "mips32":
            return _s.pack(end + "I", 0x0000000C)
        if fam == "ppc32":
            return _s.pack(">I", 0x44000002)
        return None

    # ---- loop templates: (dec counter, branch back) as bytes, given pc of the branch and the target
    def loop_tail(self, pc, target):
        """bytes of 'decrement counter; branch to target if counter != 0' placed at @pc,
        or None when the architecture has no template"""
        fam, m = self.family, self.mname
        if fam.startswith("x86"):
            dec = b"\x49" if m != "x86_64" else b"\xff\xc9"        # DEC ECX / DEC ECX(64: ff c9)
            if m == "x86_16":
                dec = b"\x49"                                          # DEC CX
            rel = target - (pc + len(dec) + 2)
            if not -128 <= rel < 128:
                return None
            return dec + b"\x75" + struct.pack("b", rel)
        end = ">" if self.big else "<"
        if fam == "arm":
            subs = 0xE2500001
            rel = (target - (pc + 4 + 8)) // 4
            bne = 0x1A000000 | (rel & 0xFFFFFF)
            return struct.pack(end + "II", subs, bne)
        if fam == "aarch64":
            subs = 0xF1000400
            rel = (target - (pc + 4)) // 4
            bne = 0x54000001 | ((rel & 0x7FFFF) << 5)
            return struct.pack(end + "II", subs, bne)
        if fam == "mips32":
            addiu = 0x2484FFFF
            rel = (target - (pc + 4 + 4)) // 4
            bne = 0x14800000 | (rel & 0xFFFF)
            return struct.pack(end + "III", addiu, bne, 0)
        if fam == "ppc32":
            addi = 0x3863FFFF
            cmpwi = 0x2C030000
            rel = target - (pc + 8)
            bne = 0x40820000 | (rel & 0xFFFC)
            return struct.pack(">III", addi, cmpwi, bne)
        if fam == "msp430":
            dec = 0x8314      # SUB #1, R4
            rel = (target - (pc + 2 + 2)) // 2
            jne = 0x2000 | (rel & 0x3FF)
            return struct.pack("<HH", dec, jne)
        return None


def ir_ops_supported(lifter, instr):
    """lift @instr alone; True iff every operator in its IR has a reference semantics"""
    ircfg = lifter.new_ircfg()
    try:
        lifter.add_instr_to_ircfg(instr, ircfg)
    except Exception:
        return False
    ok = [True]

    def cb(e):
        if e.is_op() and not op_supported(e.op):
            ok[0] = False
        return e
    nxt = instr.offset + instr.l
    loc_db = lifter.loc_db

    def leaves(e):
        if e.is_cond():
            return leaves(e.src1) + leaves(e.src2)
        return [e]
    for blk in ircfg.blocks.values():
        for ab in blk:
            for dst, src in ab.items():
                if dst == lifter.IRDst:
                    # only fall-through (or instruction-internal) destinations: no hidden control flow
                    for leaf in leaves(src):
                        if leaf.is_loc():
                            off = loc_db.get_location_offset(leaf.loc_key)
                            if off is not None and off != nxt:
                                return False
                        elif leaf.is_int():
                            if int(leaf) != nxt:
                                return False
                        else:
                            return False
                elif dst == lifter.pc:
                    return False
                src.visit(cb)
                if dst.is_mem():
                    dst.ptr.visit(cb)
                elif dst.name in ("exception_flags", "interrupt_num"):
                    ok[0] = False
    return ok[0]


X86_DENY = set("""HLT IN OUT INSB INSW INSD OUTSB OUTSW OUTSD CLI STI INT INT1 INT3 INTO IRET IRETD IRETQ SYSCALL
SYSENTER SYSEXIT SYSRET RDTSC RDMSR WRMSR CPUID LGDT LIDT SGDT SIDT LLDT SLDT LTR STR LMSW SMSW INVD WBINVD
INVLPG CLTS MOV_CR MOV_DR UD2 WAIT FWAIT XLAT LAHF_ POPF POPFD POPFQ PUSHF PUSHFD PUSHFQ POPFW PUSHFW LDS LES
LFS LGS LSS ARPL VERR VERW LAR LSL BOUND ENTER LEAVE CALL RET RETF JMP LOOP LOOPE LOOPNE JCXZ JECXZ JRCXZ
ICEBP XGETBV RDRAND RDSEED PREFETCH NOP""".split())


def instr_pool(spec, rng, want, flow=False, max_tries=None):
    """random decodable, liftable, non-control-flow instructions with reference
    semantics for all their operators -> list of (bytes, str)"""
    loc_db = LocationDB()
    lifter = spec.machine.lifter(loc_db)
    out = []
    tries = 0
    max_tries = max_tries or want * 400
    seen = {}
    while len(out) < want and tries < max_tries:
        tries += 1
        raw = bytes(rng.getrandbits(8) for _ in range(16))
        if spec.family.startswith("x86") and rng.random() < 0.5:
            # bias to common one/two byte opcodes with modrm
            raw = bytes([rng.choice([0x01, 0x03, 0x09, 0x0b, 0x11, 0x13, 0x19, 0x1b, 0x21, 0x23, 0x29, 0x2b,
                                     0x31, 0x33, 0x39, 0x3b, 0x85, 0x87, 0x89, 0x8b, 0x8d, 0x88, 0x8a, 0xc1,
                                     0xd1, 0xd3, 0xf7, 0xff, 0xfe, 0x0f, 0x50, 0x58, 0x6b, 0x69, 0x83, 0x81,
                                     0xc7, 0xc6, 0xa4, 0xa5, 0xaa, 0xab, 0x98, 0x99])]) + raw[1:]
        try:
            instr = spec.mn.dis(bin_stream_str(raw, base_address=spec.L.CODE), spec.attrib, spec.L.CODE)
        except Exception:
            continue
        if instr is None or instr.l % spec.align:
            continue
        try:
            if instr.breakflow() or instr.dstflow() or instr.splitflow():
                continue
        except Exception:
            continue
        name = instr.name
        if spec.family.startswith("x86") and (name in X86_DENY or name.startswith("F") or
                                              name.startswith("REP") or "CR" in name):
            continue
        if spec.family == "msp430" and " SR" in (" " + str(instr).replace(",", " ")):
            # the status register aliases the individual flag bits and mode bits kept elsewhere
            continue
        if spec.family == "mips32" and name in ("LL", "SC"):
            # load-linked / store-conditional depend on a link flag kept outside the register file
            continue
        if spec.family == "mep" and name in ("REPEAT", "EREPEAT"):
            # hardware loops read the PC *register*, which the back ends refresh at different
            # moments (see PC_REGS): control-flow instructions, not generated
            continue
        if seen.get(name, 0) >= max(3, want // 12):
            continue
        if not ir_ops_supported(lifter, instr):
            continue
        if reads_pc_register(spec, lifter, instr):
            # e.g. MeP 'LDC Rn, $pc': the value of the PC *register* inside a block is a back-end artefact
            # (see PC_REGS); same reason as REPEAT above
            continue
        near = accesses_near(spec, lifter, loc_db, instr)
        if near is None:
            continue
        if not near and rng.random() < 0.93:
            continue          # keep only a minority of instructions that fault from the typical state
        seen[name] = seen.get(name, 0) + 1
        out.append((raw[:instr.l], str(instr), name))
    return out


def reads_pc_register(spec, lifter, instr):
    """does the IR of @instr read the program-counter register identifier (not a constant address)?"""
    ircfg = lifter.new_ircfg()
    try:
        lifter.add_instr_to_ircfg(instr, ircfg)
    except Exception:
        return True
    for blk in ircfg.blocks.values():
        for ab in blk:
            for dst, src in ab.items():
                reads = set(src.get_r(mem_read=True))
                if dst.is_mem():
                    reads |= set(dst.ptr.get_r(mem_read=True))
                if any(r.is_id() and (r.name == spec.pc_name or r.name in PC_REGS) for r in reads):
                    return True
    return False


def accesses_near(spec, lifter, loc_db, instr):
    """run the single instruction in irinterp from the typical state (every register pointing
    into the rw page): True iff all its memory accesses stay inside the mapped data area;
    None if it cannot be interpreted (budget, undefined, unsupported)"""
    from vf import irinterp
    ircfg = lifter.new_ircfg()
    try:
        start = lifter.add_instr_to_ircfg(instr, ircfg)
    except Exception:
        return None
    L = spec.L
    ids = {}
    for reg in lifter.arch.regs.all_regs_ids:
        ids[reg] = (L.DATA_RW + 0x400) & ((1 << reg.size) - 1) if reg.size >= 16 else 1
    from vf.irgen import LocMap
    env = refsem.Env(ids=ids, seed=1, locs=LocMap(loc_db))
    if not hasattr(start, "key"):
        start = loc_db.get_or_create_offset_location(instr.offset)
    try:
        res = irinterp.run(ircfg, loc_db, start, env, max_steps=40)
    except Exception:
        return None
    if res.status != "exit":
        return None
    lo, hi = L.DATA_RW, L.DATA_RW + PAGE
    for addr, nbytes, _ps in env.reads:
        if not (lo <= addr and addr + nbytes <= hi):
            return False
    for ev in res.events:
        if ev[0] == "w" and not (lo <= ev[1] and ev[1] + ev[2] <= hi):
            return False
    return True


class Prog(object):
    """a program + initial state + memory map"""

    def __init__(self, spec):
        self.spec = spec
        self.code = b""
        self.instrs = []          # (offset, len, text, name)
        self.end = None
        self.regs = {}
        self.pages = []           # (addr, perm, bytes, name)
        self.loop = None          # (head, branch_pc)
        self.delay_slots = []     # addresses of instructions sitting in a branch delay slot
        self.holes = []           # (address, size) of the unmapped ranges pointers are aimed at

    def describe(self):
        return dict(machine=self.spec.mname, code=self.code.hex(),
                    instrs=["%x: %s" % (o, t) for o, l, t, n in self.instrs],
                    regs={k: hex(v) for k, v in sorted(self.regs.items())},
                    pages=[(hex(a), p, len(b)) for a, p, b, n in self.pages], end=hex(self.end))


def interesting_values(rng, bits, L):
    m = (1 << bits) - 1
    DATA_RW, DATA_RO, HOLE, DATA_RW2 = L.DATA_RW, L.DATA_RO, L.HOLE, L.DATA_RW2
    pool = [DATA_RW + 8, DATA_RW + 0x800, DATA_RW + PAGE - 4, DATA_RW + PAGE - 1, DATA_RW + PAGE - 8,
            DATA_RO, DATA_RO + 4, DATA_RO + PAGE - 4, DATA_RO + PAGE - 2, HOLE - 1, HOLE, DATA_RW2,
            DATA_RW2 + 0x10, DATA_RW + 0x100, DATA_RW + 0x104, 0, 1, 2, 3, 4, 8, m, m - 1, 0x7f, 0x80,
            0xff, 0x7fff, 0x8000, 0x7fffffff & m, 0x80000000 & m, rng.getrandbits(bits),
            rng.getrandbits(bits), DATA_RW + rng.randrange(0, PAGE), DATA_RW + rng.randrange(0, PAGE)]
    return [v & m for v in pool]


def make_prog(spec, rng, pool, n_instr, with_loop=False, fault_bias=0.3, mode=None, soft_int=False,
              selfloop=False):
    """mode: None (registers mostly inside the rw page, fault_bias of them on interesting values),
    "straddle" (every pointer a few bytes before a page boundary: rw->ro, ro->hole, hole->rw2),
    "tiny" (every pointer a few bytes before a 2-byte read-only page, a 1-byte hole or a 2-byte
    write-only page that sit between
    writable regions: a wide access covers writable / not writable / writable bytes),
    "split" (every register independently on a valid rw address, a read-only address or a hole:
    instructions that read one place and write another get one good and one bad operand)"""
    p = Prog(spec)
    L = spec.L
    CODE, DATA_RW, DATA_RO, DATA_RW2 = L.CODE, L.DATA_RW, L.DATA_RO, L.DATA_RW2
    bits = 16 if spec.pc_size == 16 else (64 if spec.mname in ("x86_64", "aarch64l", "aarch64b") else 32)
    body = [rng.choice(pool) for _ in range(n_instr)]
    si = spec.soft_int() if soft_int else None
    if si is not None:
        # one or two software interrupts, preferably inside the loop body
        for _ in range(rng.choice([1, 1, 2])):
            body.insert(rng.randrange(0, len(body) + 1), (si, "<software interrupt>", "SOFTINT"))
        n_instr = len(body)
    if selfloop and spec.family.startswith("x86"):
        # an instruction that branches to its own address: LOOP $ (counts (E/R)CX down in place)
        body.insert(rng.randrange(0, len(body) + 1), (b"\xe2\xfe", "LOOP       $", "SELFLOOP"))
        n_instr = len(body)
    else:
        selfloop = False
    code = b""
    off = CODE
    loop_at = rng.randrange(0, max(1, n_instr - 1)) if with_loop else None
    loop_end = None
    if with_loop:
        loop_end = min(n_instr, loop_at + rng.randrange(1, 5))
    head = None
    for i, (raw, txt, name) in enumerate(body):
        if i == loop_at:
            head = off
        p.instrs.append((off, len(raw), txt, name))
        code += raw
        off += len(raw)
        if loop_end is not None and i + 1 == loop_end:
            tail = spec.loop_tail(off, head)
            if tail is not None:
                slot = None
                if spec.family == "mips32" and rng.random() < 0.6:
                    # a real instruction in the branch delay slot instead of the NOP
                    slot = rng.choice(pool)
                    tail = tail[:-4]
                p.instrs.append((off, len(tail), "<loop tail -> %x>" % head, "LOOPTAIL"))
                p.loop = (head, off)
                code += tail
                off += len(tail)
                if slot is not None:
                    p.instrs.append((off, len(slot[0]), slot[1] + "   ; delay slot", slot[2]))
                    p.delay_slots.append(off)
                    code += slot[0]
                    off += len(slot[0])
    p.code = code
    p.end = off
    vals = interesting_values(rng, bits, L)
    for r in spec.gprs:
        if rng.random() < fault_bias:
            p.regs[r] = rng.choice(vals)
        else:
            p.regs[r] = (DATA_RW + rng.choice([0x100, 0x200, 0x400, 0x800, 0x7fc, 0x104, 0x10c])) \
                if rng.random() < 0.7 else rng.choice([0, 1, 2, 3, 4, 5, 8])
    m = (1 << bits) - 1
    if mode == "straddle":
        ends = [DATA_RW + PAGE, DATA_RO + PAGE, DATA_RW2]
        for r in spec.gprs:
            p.regs[r] = (rng.choice(ends) - rng.choice([1, 1, 2, 3, 3, 5, 7])) & m
    elif mode == "tiny":
        for r in spec.gprs:
            p.regs[r] = (rng.choice([L.TINY_RO, L.TINY_HOLE, L.TINY_HOLE, L.TINY_WO]) -
                         rng.choice([0, 1, 1, 2, 2, 3, 5, 6])) & m
    elif mode == "split":
        for r in spec.gprs:
            k = rng.random()
            if k < 0.45:
                p.regs[r] = (DATA_RW + rng.choice([0x100, 0x200, 0x400, 0x404, 0x800])) & m
            elif k < 0.7:
                p.regs[r] = (L.HOLE + rng.choice([0x10, 0x100, 0x800])) & m
            elif k < 0.9:
                p.regs[r] = (DATA_RO + rng.choice([0x10, 0x100, 0x800])) & m
            else:
                p.regs[r] = rng.choice([0, 1, 2, 4, 8])
    for f in spec.flags:
        p.regs[f] = rng.getrandbits(1)
    p.regs[spec.sp_name] = DATA_RW + 0x800 + rng.choice([0, 4, 8, 0x7f8 - 0x800 + 0x800])
    if mode == "straddle" and rng.random() < 0.5:
        p.regs[spec.sp_name] = (DATA_RW + PAGE + rng.choice([1, 2, 3, 6])) & m   # pushes straddle down into rw
    if mode == "tiny" and rng.random() < 0.5:
        p.regs[spec.sp_name] = (rng.choice([L.RW3, L.RW4]) + rng.choice([1, 2, 3, 6])) & m
    if mode == "split" and rng.random() < 0.3:
        p.regs[spec.sp_name] = (L.HOLE + 0x800) & m
    if p.loop is not None or selfloop:
        p.regs[spec.counter] = rng.choice([1, 2, 3, 3, 4, 6])
    fill = bytes(rng.getrandbits(8) for _ in range(PAGE))
    p.pages = [(CODE, PAGE_READ | PAGE_WRITE, code + b"\x00" * (PAGE - len(code)), "code"),
               (DATA_RW, PAGE_READ | PAGE_WRITE, fill, "rw"),
               (DATA_RO, PAGE_READ, fill[::-1], "ro"),
               (DATA_RW2, PAGE_READ | PAGE_WRITE, fill[7:] + fill[:7], "rw2"),
               (L.TINY_RO, PAGE_READ, fill[11:13], "tiny_ro"),
               (L.RW3, PAGE_READ | PAGE_WRITE, fill[20:20 + 0x40], "rw3"),
               (L.RW4, PAGE_READ | PAGE_WRITE, fill[90:90 + 0x40], "rw4"),
               (L.TINY_WO, PAGE_WRITE, fill[17:19], "tiny_wo"),
               (L.RW5, PAGE_READ | PAGE_WRITE, fill[160:160 + 0x40], "rw5")]
    p.holes = [(L.HOLE, PAGE), (L.TINY_HOLE, 1)]
    return p


class Outcome(object):
    def __init__(self):
        self.regs = None
        self.mem = None
        self.pc = None
        self.exc_cpu = None
        self.exc_vm = None
        self.raised = None
        self.bp_hits = []
        self.exc_seen = []
        self.steps = 0
        self.budget = False
        self.trace = []
        self.stop = None

    def summary(self, spec):
        return dict(pc=self.pc, exc_cpu=self.exc_cpu, exc_vm=self.exc_vm, raised=self.raised,
                    stop=self.stop, steps=self.steps)


def new_jitter(spec, backend, prog, options=None):
    loc_db = LocationDB()
    jitter = spec.machine.jitter(loc_db, backend)
    if spec.big:
        jitter.vm.set_big_endian()
    for addr, perm, data, name in prog.pages:
        jitter.vm.add_memory_page(addr, perm, data, name)
    for r, v in prog.regs.items():
        setattr(jitter.cpu, r, v)
    if options:
        jitter.jit.set_options(**{k: v for k, v in options.items() if k in ("jit_maxline", "max_exec_per_call")})
    return jitter


IGNORED_REGS = {"tsc", "interrupt_num", "exception_flags", "PC_FETCH"}
# the program-counter register of the CPU object is refreshed by the back ends at different
# moments (block exit vs. exception only); jitter.pc is what is compared
PC_REGS = {"RIP", "EIP", "IP", "PC"}


def snapshot(jitter, spec, out):
    g = jitter.cpu.get_gpreg()
    out.regs = {k: v for k, v in g.items() if k not in IGNORED_REGS}
    mem = jitter.vm.get_all_memory()
    out.mem = {a: (bytes(d["data"]), d["access"]) for a, d in mem.items()}
    out.exc_cpu = jitter.cpu.get_exception()
    out.exc_vm = jitter.vm.get_exception()
    out.pc = jitter.pc


def run(spec, backend, prog, options=None, max_steps=400, breakpoints=(), trace=False, on_fault=None,
        jitter=None, start=None, int_handler=False, bp_writes=None):
    """run @prog to its end marker.  -> Outcome
    @bp_writes: {breakpoint address: (register name, value)}: the callback of that breakpoint changes
    the register from outside the engine (what an emulated library function does)
    @int_handler: software interrupts / system calls are handled by a host callback that logs
    (pc, counter register), changes a register, clears the exception and lets the run go on"""
    out = Outcome()
    out.int_log = []
    if jitter is None:
        jitter = new_jitter(spec, backend, prog, options)
    out.jitter = jitter

    def at_end(j):
        out.stop = "end"
        return False

    SOFT = (1 << 2) | (1 << 4)       # EXCEPT_INT_XX | EXCEPT_SYSCALL

    def on_exc(j):
        flag = j.get_exception()
        if int_handler and flag and (flag & ~SOFT) == 0 and len(out.int_log) < 200:
            cnt = getattr(j.cpu, spec.counter) if spec.counter else 0
            out.int_log.append((j.pc, cnt))
            scratch = spec.gprs[-1]
            setattr(j.cpu, scratch, (getattr(j.cpu, scratch) * 3 + j.pc + len(out.int_log)) & 0xFFFF)
            j.cpu.set_exception(0)
            return True
        out.exc_seen.append(flag)
        out.stop = "exception"
        if on_fault is not None:
            return on_fault(j, out)
        return False

    def count(j):
        out.steps += 1
        if trace:
            out.trace.append(j.pc)
        if out.steps > max_steps:
            out.budget = True
            out.stop = "budget"
            return False
        return True

    jitter.add_breakpoint(prog.end, at_end)
    for bit in list(range(1, 5)) + [10, 25]:
        jitter.add_exception_handler(1 << bit, on_exc)
    jitter.exec_cb = count
    for addr in breakpoints:
        def hit(j, addr=addr):
            out.bp_hits.append(addr)
            if bp_writes and addr in bp_writes:
                reg, val = bp_writes[addr]
                setattr(j.cpu, reg, val)
            return True
        jitter.add_breakpoint(addr, hit)
    try:
        jitter.run(start if start is not None else spec.L.CODE)
    except Exception as exc:   # an exception escaping run is an outcome, not a harness error
        out.raised = type(exc).__name__
        out.raised_msg = str(exc)[:200]
    snapshot(jitter, spec, out)
    return out


def diff_outcomes(a, b, spec, ignore_regs=(), skip=()):
    """first difference between two outcomes as (kind, detail) or None"""
    if a.raised != b.raised and "raised" not in skip:
        return "raised", "%s vs %s" % (a.raised, b.raised)
    if (a.exc_cpu, a.exc_vm) != (b.exc_cpu, b.exc_vm) and "exception flags" not in skip:
        return "exception flags", "cpu 0x%x vm 0x%x vs cpu 0x%x vm 0x%x" % (a.exc_cpu, a.exc_vm,
                                                                             b.exc_cpu, b.exc_vm)
    if a.pc != b.pc and "pc" not in skip:
        return "pc", "0x%x vs 0x%x" % (a.pc or 0, b.pc or 0)
    for r in sorted(set(a.regs) | set(b.regs)):
        if r in ignore_regs or r in PC_REGS:
            continue
        if a.regs.get(r) != b.regs.get(r):
            return "register", "%s: %s vs %s" % (r, hex(a.regs.get(r, -1)), hex(b.regs.get(r, -1)))
    if set(a.mem) != set(b.mem):
        return "page set", "%s vs %s" % (sorted(a.mem), sorted(b.mem))
    for addr in sorted(a.mem):
        da, pa = a.mem[addr]
        db, pb = b.mem[addr]
        if pa != pb:
            return "page access", "0x%x: %d vs %d" % (addr, pa, pb)
        if da != db:
            i = next(i for i in range(min(len(da), len(db))) if da[i] != db[i]) if len(da) == len(db) else -1
            return "memory", "0x%x+%d: %s vs %s" % (addr, i, da[i:i + 8].hex(), db[i:i + 8].hex())
    if getattr(a, "int_log", []) != getattr(b, "int_log", []) and "int_log" not in skip:
        return "interrupt handler calls", "%s vs %s" % ([(hex(p), c) for p, c in a.int_log[:6]],
                                                        [(hex(p), c) for p, c in b.int_log[:6]])
    if a.bp_hits != b.bp_hits:
        return "breakpoint hits", "%s vs %s" % (a.bp_hits[:10], b.bp_hits[:10])
    return None


def count_stores(spec, prog, idx):
    """number of memory destinations in the IR of instruction @idx of @prog"""
    from miasm.core.bin_stream import bin_stream_str
    from miasm.core.locationdb import LocationDB
    off, ln, txt, nm = prog.instrs[idx]
    try:
        loc_db = LocationDB()
        lifter = spec.machine.lifter(loc_db)
        raw = prog.code[off - spec.L.CODE: off - spec.L.CODE + ln]
        instr = spec.mn.dis(bin_stream_str(raw, base_address=off), spec.attrib, off)
        ircfg = lifter.new_ircfg()
        lifter.add_instr_to_ircfg(instr, ircfg)
        return sum(1 for blk in ircfg.blocks.values() for ab in blk for dst in ab if dst.is_mem())
    except Exception:
        return -1




def dest_regs(spec, prog, idx):
    """names of the CPU registers (flags included) assigned by the IR of instruction @idx of @prog,
    restricted to those the CPU object exposes; the program counter and IRDst are left out"""
    from miasm.core.bin_stream import bin_stream_str
    from miasm.core.locationdb import LocationDB
    off, ln, txt, nm = prog.instrs[idx]
    try:
        loc_db = LocationDB()
        lifter = spec.machine.lifter(loc_db)
        raw = prog.code[off - spec.L.CODE: off - spec.L.CODE + ln]
        instr = spec.mn.dis(bin_stream_str(raw, base_address=off), spec.attrib, off)
        ircfg = lifter.new_ircfg()
        lifter.add_instr_to_ircfg(instr, ircfg)
        out = {}
        for blk in ircfg.blocks.values():
            for ab in blk:
                for dst in ab:
                    if dst.is_id() and dst != lifter.IRDst and dst.name not in PC_REGS \
                            and dst.name != spec.pc_name and dst.name not in IGNORED_REGS:
                        out[dst.name] = dst.size
        return out
    except Exception:
        return {}
