"""development aid: python -m vf.dbg <replay.json> -- prints the witness"""
import json, sys
d = json.load(open(sys.argv[1]))
print(json.dumps({k: d[k] for k in ("key", "what", "count")}, indent=1))
print(json.dumps(d["witness"], indent=1)[:6000])
