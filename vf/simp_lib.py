"""Shared by C01/C02: private ExpressionSimplifier instances whose rule lists
are the shipped ones wrapped by a recorder, valuations, rule attribution."""
import traceback

from miasm.expression import expression as m2
from miasm.expression.simplifications import ExpressionSimplifier

from vf import refsem
from vf.exprgen import boundary_values

CONFIGS = {
    "expr_simp": ["PASS_COMMONS"],
    "expr_simp_high_to_explicit": ["PASS_HIGH_TO_EXPLICIT"],
    "expr_simp_explicit": ["PASS_COMMONS", "PASS_HIGH_TO_EXPLICIT"],
}


class Recorded(object):
    def __init__(self):
        self.log = []
        self.enabled = True
        self.fired = {}


def make_simplifier(config, recorder):
    """Build a fresh simplifier for @config from the working tree's pass lists,
    every rule wrapped so that each effective rewrite is recorded."""
    simp = ExpressionSimplifier()
    for pname in CONFIGS[config]:
        passes = getattr(ExpressionSimplifier, pname)
        wrapped = {}
        for cls, rules in passes.items():
            wrapped[cls] = [wrap_rule(r, recorder) for r in rules]
        simp.enable_passes(wrapped)
    return simp


def wrap_rule(rule, recorder):
    name = getattr(rule, "__name__", repr(rule))

    def wrapped(e_s, expr):
        out = rule(e_s, expr)
        if out is not expr and recorder.enabled:
            recorder.fired[name] = recorder.fired.get(name, 0) + 1
            if len(recorder.log) < 400:
                recorder.log.append((name, expr, out))
        return out
    wrapped.__name__ = name
    return wrapped


def rule_names():
    names = set()
    for cfg in CONFIGS.values():
        for pname in cfg:
            for rules in getattr(ExpressionSimplifier, pname).values():
                for r in rules:
                    names.add(r.__name__)
    return sorted(names)


def collect_ids(e):
    out = set()

    def cb(x):
        if x.is_id():
            out.add(x)
        return x
    e.visit(cb)
    return sorted(out, key=lambda x: (x.name, x.size))


def valuations(e, rng, count, seed_base):
    """Env list: first ones draw identifier values from the boundary set,
    the rest are random; memory is the seeded total function."""
    ids = collect_ids(e)
    envs = []
    for k in range(count):
        vals = {}
        for i in ids:
            if k < count // 2:
                vals[i] = rng.choice(boundary_values(i.size))
            else:
                vals[i] = rng.getrandbits(i.size)
        if k == 0:
            vals = {i: 0 for i in ids}
        envs.append(refsem.Env(ids=vals, seed=seed_base + k))
    return envs


def compare(orig, new, envs):
    """-> (status, info). status in ok / mismatch / all_undef / unsupported /
    result_undef"""
    defined = 0
    for env in envs:
        try:
            want = refsem.evaluate(orig, env)
        except refsem.Undef:
            continue
        except refsem.Unsupported as exc:
            return "unsupported", str(exc)
        defined += 1
        try:
            got = refsem.evaluate(new, env)
        except refsem.Undef:
            return "result_undef", dict(env=env_repr(env), want=want)
        except refsem.Unsupported as exc:
            return "unsupported", str(exc)
        if got != want:
            return "mismatch", dict(env=env_repr(env), want=want, got=got)
    if not defined:
        return "all_undef", None
    return "ok", defined


def env_repr(env):
    return dict(ids={str(k): hex(v) for k, v in env.ids.items()}, mem_seed=env.seed)


def guilty_rule(log, envs_for):
    """first recorded rewrite that is itself not meaning preserving"""
    for name, before, after in log:
        if before.size != after.size:
            return name, before, after, "size"
        st, info = compare(before, after, envs_for(before))
        if st in ("mismatch", "result_undef"):
            return name, before, after, info
    return None


def raising_rule(tb):
    """name of the innermost frame inside miasm/expression/simplifications*"""
    name = None
    for fr in traceback.extract_tb(tb):
        if "simplifications" in fr.filename or "expression_helper" in fr.filename:
            name = fr.name
    return name or "?"


def kind(e):
    if e.is_op():
        op = e.op
        if op.startswith("zeroExt_"):
            return "zeroExt"
        if op.startswith("signExt_"):
            return "signExt"
        return op
    return e.__class__.__name__[4:]


def pattern(e):
    """top-level operator and the kinds of its children (no sizes, no
    constants): the mechanism part of a finding key"""
    if e.is_op():
        return "%s(%s)" % (kind(e), ",".join(kind(a) for a in e.args[:4]))
    if e.is_cond():
        return "Cond(%s,%s,%s)" % (pattern(e.cond) if e.cond.is_op() else kind(e.cond),
                                   kind(e.src1), kind(e.src2))
    if e.is_slice():
        return "Slice(%s)" % kind(e.arg)
    if e.is_compose():
        return "Compose(%s)" % ",".join(kind(a) for a in e.args[:4])
    if e.is_mem():
        return "Mem(%s)" % kind(e.ptr)
    return kind(e)
