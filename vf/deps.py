"""Offline installation of the third-party helpers (z3-solver, icontract, deal,
jsonschema) into /verif/.deps.  Idempotent; called by setup.sh and lazily by
the runner for checks that need them."""
import os
import subprocess
import sys
import fcntl

ROOT = os.path.dirname(os.path.dirname(os.path.abspath(__file__)))
DEPS = os.path.join(ROOT, ".deps")
WHEELS = "/opt/veriftools/wheels"
PKGS = ["z3-solver", "icontract", "deal", "jsonschema"]
STAMP = os.path.join(DEPS, ".installed")


def ensure():
    if os.path.exists(STAMP):
        return DEPS
    os.makedirs(DEPS, exist_ok=True)
    lock = open(os.path.join(DEPS, ".lock"), "w")
    fcntl.flock(lock, fcntl.LOCK_EX)
    try:
        if os.path.exists(STAMP):
            return DEPS
        env = dict(os.environ, PIP_NO_INDEX="1", PIP_DISABLE_PIP_VERSION_CHECK="1")
        cmd = ["/venv/bin/pip", "install", "-q", "--no-index", "--find-links", WHEELS,
               "--target", DEPS] + PKGS
        r = subprocess.run(cmd, env=env, stdout=subprocess.PIPE, stderr=subprocess.STDOUT)
        if r.returncode != 0:
            sys.stderr.write(r.stdout.decode(errors="replace"))
            raise SystemExit("deps install failed")
        open(STAMP, "w").write("ok\n")
    finally:
        fcntl.flock(lock, fcntl.LOCK_UN)
    return DEPS


if __name__ == "__main__":
    print(ensure())
