"""Regenerate MANIFEST.json from the CHECK dictionaries of vf/checks/*.py.

    /venv/bin/python -m vf.mkmanifest

Properties without a check module are listed under not_applicable with the
reason recorded in NOT_APPLICABLE below."""
import glob
import importlib
import json
import os
import subprocess

ROOT = os.path.dirname(os.path.dirname(os.path.abspath(__file__)))

# property id -> reason; only consulted for properties without a check module
NOT_APPLICABLE = {}
DEFAULT_REASON = ("no monitor registered for this property yet (machinery under construction); "
                  "nothing is claimed")

BASELINE = ("cd /repo && env -u MIASM_VERIF /venv/bin/python -m pytest -ra -q -p no:cacheprovider "
            "--timeout=900 --continue-on-collection-errors test/arch/mep")


def _registered():
    path = os.path.join(ROOT, "vf", "registered.txt")
    return set(l.split()[0] for l in open(path) if l.strip() and not l.startswith("#"))


REGISTERED = _registered()


def main():
    props = [json.loads(l) for l in open(os.path.join(ROOT, "properties.jsonl"))]
    ids = [p["id"] for p in props]
    checks = []
    have = set()
    for path in sorted(glob.glob(os.path.join(ROOT, "vf", "checks", "c[0-9]*_*.py"))):
        name = os.path.basename(path)[:-3]
        if name.split("_")[0].upper() not in REGISTERED:
            continue
        mod = importlib.import_module("vf.checks." + name)
        c = mod.CHECK
        if c["id"] not in REGISTERED:
            continue
        if c.get("disabled"):
            NOT_APPLICABLE.setdefault(c["id"], c["disabled"])
            continue
        pid = c["id"]
        have.add(pid)
        ent = dict(
            property_id=pid,
            quick_cmd="./check %s --tier quick" % pid,
            thorough_cmd="./check %s --tier thorough" % pid,
            evidence_file="/verif/evidence/%s.json" % pid,
            replay_cmd_template="./check %s --replay {path}" % pid,
            engine="vf",
            level_claimed=dict(category=c["level"], text=c.get("level_text", c["rule"]),
                               design_ref="DESIGN.md section 6, " + pid),
            level_note=c.get("level_note", "; ".join(c.get("assumptions", [])) or "see DESIGN.md"),
            technique=c.get("technique", "runtime monitoring: reference-model oracle over generated workloads"),
        )
        checks.append(ent)
    hooks_commits = []
    hc = os.path.join(ROOT, "hook_commits.txt")
    if os.path.exists(hc):
        hooks_commits = [l.split()[0] for l in open(hc) if l.strip() and not l.startswith("#")]
    man = dict(
        version=1,
        setup_cmd="./setup.sh",
        hooks=dict(guard="MIASM_VERIF",
                   enable=("checks export MIASM_VERIF=1 to their worker processes and build the C "
                           "extensions from /repo's working tree into a scratch overlay "
                           "(vf/overlay.py); the repository's own build never defines the guard"),
                   baseline_off_cmd=BASELINE, source_commits=hooks_commits, add_only=True),
        engines=[dict(name="vf", path="/verif/vf",
                      serves_properties=sorted(have),
                      kind_free_text=("runtime-monitoring framework: generated workloads run against "
                                      "/repo's working tree in worker subprocesses; reference-model, "
                                      "differential and invariant monitors; sanitizer builds of the C "
                                      "extensions"))],
        checks=checks,
        notes=("Verdicts are three-valued: exit 0 held / exit 1 VIOLATION / exit 2 INCONCLUSIVE "
               "(watchdog, missing tool or observation floor). known_findings.json lists genuine "
               "defects of the unchanged tree keyed by mechanism."),
        not_applicable=[dict(property_id=i, reason=NOT_APPLICABLE.get(i, DEFAULT_REASON))
                        for i in ids if i not in have],
    )
    with open(os.path.join(ROOT, "MANIFEST.json"), "w") as fd:
        json.dump(man, fd, indent=1)
    # validate
    import sys
    sys.path.insert(0, os.path.join(ROOT, ".deps"))
    try:
        import jsonschema
        jsonschema.validate(man, json.load(open("/root/.vp/MANIFEST.schema.json")))
        print("MANIFEST.json valid: %d checks, %d not_applicable" % (len(checks), len(man["not_applicable"])))
    except ImportError:
        print("jsonschema unavailable; MANIFEST.json written unvalidated")


if __name__ == "__main__":
    main()
