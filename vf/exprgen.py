"""Generators of miasm expressions: size-directed random trees plus
pattern-directed templates derived from the preconditions of rewrite rules."""
from miasm.expression.expression import (ExprInt, ExprId, ExprMem, ExprOp, ExprSlice,
                                         ExprCompose, ExprCond)

WIDTHS = [1, 2, 3, 4, 7, 8, 9, 15, 16, 31, 32, 33, 63, 64, 65, 80, 127, 128]
COMMON_WIDTHS = [1, 8, 16, 32, 64]

ASSOC = ['+', '*', '^', '&', '|']
SHIFTS = ['>>', '<<', 'a>>', '>>>', '<<<']
DIVS = ['/', '%', 'udiv', 'umod', 'sdiv', 'smod']
CMPS = ['==', '<u', '<s', '<=u', '<=s']
FLAGS2 = ['FLAG_EQ_AND', 'FLAG_EQ_CMP', 'FLAG_SIGN_SUB', 'FLAG_ADD_CF', 'FLAG_ADD_OF',
          'FLAG_SUB_CF', 'FLAG_SUB_OF', 'FLAG_SIGN_ADD']
FLAGS3 = ['FLAG_EQ_ADDWC', 'FLAG_EQ_SUBWC', 'FLAG_SIGN_ADDWC', 'FLAG_SIGN_SUBWC',
          'FLAG_ADDWC_CF', 'FLAG_ADDWC_OF', 'FLAG_SUBWC_CF', 'FLAG_SUBWC_OF']
CCS = {'CC_U<=': 2, 'CC_U>=': 1, 'CC_S<': 2, 'CC_S>': 3, 'CC_S<=': 3, 'CC_S>=': 2,
       'CC_U>': 2, 'CC_U<': 1, 'CC_EQ': 1, 'CC_NE': 1, 'CC_NEG': 1, 'CC_POS': 1}


def boundary_values(n):
    m = (1 << n) - 1
    vals = {0, 1, m, m >> 1, (m >> 1) + 1, m - 1, 2 & m}
    for k in (7, 8, 15, 16, 31, 32, 63, 64):
        if k <= n:
            vals.update([((1 << k) - 1) & m, (1 << k) & m, ((1 << k) + 1) & m])
    return sorted(vals)


class Gen(object):
    def __init__(self, rng, widths=None, ops=None, mem=True, mem_any_size=False,
                 ptr_widths=(16, 32, 64), max_width=128, div=True, pow_op=True,
                 flags=True, n_ids=3, cond=True):
        self.rng = rng
        self.widths = [w for w in (widths or WIDTHS) if w <= max_width]
        self.mem = mem
        self.mem_any_size = mem_any_size
        self.ptr_widths = [w for w in ptr_widths if w <= max_width] or [max_width]
        self.max_width = max_width
        self.div = div
        self.pow_op = pow_op
        self.flags = flags
        self.n_ids = n_ids
        self.cond = cond
        self.ops_allowed = ops  # None = all

    # ---- leaves
    def width(self):
        r = self.rng
        if r.random() < 0.5:
            c = [w for w in COMMON_WIDTHS if w in self.widths or w <= self.max_width]
            return r.choice(c)
        return r.choice(self.widths)

    def const(self, n):
        r = self.rng
        if r.random() < 0.7:
            return r.choice(boundary_values(n))
        return r.getrandbits(n)

    def int_(self, n):
        return ExprInt(self.const(n), n)

    def small_int(self, n, hi=None):
        """constant usable as a shift count: mostly < n, sometimes boundary"""
        r = self.rng
        hi = hi if hi is not None else n
        p = r.random()
        if p < 0.6:
            v = r.randrange(0, hi + 1)
        elif p < 0.8:
            v = r.choice([n - 1, n, n + 1, 2 * n, 2 * n + 1])
        else:
            v = self.const(n)
        return ExprInt(v & ((1 << n) - 1), n)

    def id_(self, n):
        return ExprId("%s%d" % (self.rng.choice("abcdefg"[:self.n_ids]), n), n)

    def leaf(self, n):
        if self.rng.random() < 0.45:
            return self.int_(n)
        return self.id_(n)

    def allowed(self, op):
        return self.ops_allowed is None or op in self.ops_allowed

    # ---- trees
    def expr(self, n, depth):
        r = self.rng
        if depth <= 0 or r.random() < 0.12:
            return self.leaf(n)
        for _ in range(8):
            kind = r.random()
            e = self._try(kind, n, depth)
            if e is not None:
                assert e.size == n, (e, n)
                return e
        return self.leaf(n)

    def _try(self, kind, n, depth):
        r = self.rng
        d = depth - 1
        if n == 1 and kind < 0.35:
            return self.bool_expr(d)
        if kind < 0.30:
            op = r.choice(ASSOC)
            if not self.allowed(op):
                return None
            k = 2 if r.random() < 0.75 else 3
            return ExprOp(op, *[self.expr(n, d) for _ in range(k)])
        if kind < 0.36:
            if not self.allowed('-'):
                return None
            if r.random() < 0.5:
                return ExprOp('-', self.expr(n, d))
            return ExprOp('-', self.expr(n, d), self.expr(n, d))
        if kind < 0.48:
            op = r.choice(SHIFTS)
            if not self.allowed(op):
                return None
            cnt = self.small_int(n) if r.random() < 0.7 else self.expr(n, d)
            return ExprOp(op, self.expr(n, d), cnt)
        if kind < 0.53:
            if not self.div:
                return None
            op = r.choice(DIVS)
            if not self.allowed(op):
                return None
            return ExprOp(op, self.expr(n, d), self.expr(n, d))
        if kind < 0.56:
            op = r.choice(['cntleadzeros', 'cnttrailzeros'])
            if not self.allowed(op):
                return None
            return ExprOp(op, self.expr(n, d))
        if kind < 0.57:
            if not (self.pow_op and self.allowed('**')):
                return None
            return ExprOp('**', self.expr(n, d), ExprInt(r.randrange(0, 6), n))
        if kind < 0.66:
            # extension from a smaller width
            if n < 2:
                return None
            m = r.choice([w for w in range(1, n)] if n <= 16 else
                         [w for w in self.widths + [n - 1, n // 2] if 1 <= w < n])
            op = r.choice(['zeroExt_%d', 'signExt_%d']) % n
            if not self.allowed(op.split('_')[0]):
                return None
            return ExprOp(op, self.expr(m, d))
        if kind < 0.76:
            # slice of a wider expression
            cands = [w for w in self.widths if w > n]
            if not cands:
                return None
            m = r.choice(cands)
            start = r.choice([0, 0, m - n, r.randrange(0, m - n + 1)])
            return ExprSlice(self.expr(m, d), start, start + n)
        if kind < 0.86:
            # composition
            if n < 2:
                return None
            parts = []
            left = n
            k = r.choice([2, 2, 3])
            while left > 0 and len(parts) < k - 1:
                s = r.randrange(1, left) if left > 1 else 1
                if r.random() < 0.5 and left > 8:
                    s = r.choice([w for w in (8, 16, 32, 64) if w < left])
                parts.append(s)
                left -= s
                if left == 0:
                    break
            if left > 0:
                parts.append(left)
            return ExprCompose(*[self.expr(s, d) for s in parts])
        if kind < 0.94:
            if not self.cond:
                return None
            c = self.expr(self.width() if r.random() < 0.5 else 1, d)
            return ExprCond(c, self.expr(n, d), self.expr(n, d))
        if not self.mem:
            return None
        if n % 8 and not self.mem_any_size:
            return None
        pw = r.choice(self.ptr_widths)
        return ExprMem(self.expr(pw, min(d, 2)), n)

    def bool_expr(self, d):
        r = self.rng
        k = r.random()
        n = self.width()
        if k < 0.45:
            op = r.choice(CMPS)
            if not self.allowed(op):
                return self.leaf(1)
            a = self.expr(n, d)
            b = self.expr(n, d) if r.random() < 0.5 else self.int_(n)
            return ExprOp(op, a, b)
        if k < 0.5:
            if not self.allowed('parity'):
                return self.leaf(1)
            return ExprOp('parity', self.expr(n, d))
        if not self.flags:
            return self.leaf(1)
        if k < 0.72:
            op = r.choice(FLAGS2 + ['FLAG_EQ'])
            if op == 'FLAG_EQ':
                return ExprOp(op, self.expr(n, d))
            return ExprOp(op, self.expr(n, d), self.expr(n, d))
        if k < 0.82:
            op = r.choice(FLAGS3)
            return ExprOp(op, self.expr(n, d), self.expr(n, d), self.expr(1, d))
        op = r.choice(sorted(CCS))
        return ExprOp(op, *[self.expr(1, d) for _ in range(CCS[op])])

    # ---- pattern-directed templates (one per rewrite-rule precondition)
    def directed(self, depth=2):
        r = self.rng
        t = r.choice(TEMPLATES)
        for _ in range(6):
            try:
                e = t(self, depth)
            except (ValueError, IndexError, AssertionError):
                e = None
            if e is not None:
                return e, t.__name__
            t = r.choice(TEMPLATES)
        n = self.width()
        return self.expr(n, depth), "fallback"


def _w2(g, lo=2):
    """a width with room for a strictly smaller one"""
    c = [w for w in g.widths if w >= lo]
    return g.rng.choice(c)


def _smaller(g, n):
    c = [w for w in g.widths if w < n] or [max(1, n - 1)]
    return g.rng.choice(c)


def _ext_const(g, m, n):
    """constants around the range of an m-bit value seen at width n"""
    r = g.rng
    c = [0, 1, (1 << m) - 1, 1 << m, (1 << m) + 1, (1 << (m - 1)), (1 << (m - 1)) - 1,
         (1 << n) - 1, (1 << n) - (1 << (m - 1)), (1 << n) - (1 << (m - 1)) - 1,
         (1 << (n - 1)), (1 << (n - 1)) - 1, (1 << n) - (1 << m), r.getrandbits(n), r.getrandbits(m)]
    return ExprInt(r.choice(c) & ((1 << n) - 1), n)


def t_ext_cmp_cst(g, d):
    n = _w2(g)
    m = _smaller(g, n)
    ext = g.rng.choice(['zeroExt_%d', 'signExt_%d']) % n
    op = g.rng.choice(CMPS)
    return ExprOp(op, ExprOp(ext, g.expr(m, d)), _ext_const(g, m, n))


def t_ext_eq_ext(g, d):
    n = _w2(g)
    m = _smaller(g, n)
    m2 = m if g.rng.random() < 0.8 else _smaller(g, n)
    e1 = g.rng.choice(['zeroExt_%d', 'signExt_%d']) % n
    e2 = e1 if g.rng.random() < 0.8 else g.rng.choice(['zeroExt_%d', 'signExt_%d']) % n
    return ExprOp('==', ExprOp(e1, g.expr(m, d)), ExprOp(e2, g.expr(m2, d)))


def t_compose0_eq_cst(g, d):
    n = _w2(g)
    m = _smaller(g, n)
    return ExprOp('==', ExprCompose(g.expr(m, d), ExprInt(0, n - m)), _ext_const(g, m, n))


def t_addxor_eq_cst(g, d):
    n = g.width()
    op = g.rng.choice(['+', '^'])
    k = g.rng.choice([1, 2])
    left = ExprOp(op, *([g.expr(n, d) for _ in range(k)] + [g.int_(n)]))
    if g.rng.random() < 0.3:
        return ExprOp('==', g.int_(n), left)
    return ExprOp('==', left, g.int_(n))


def t_cmp_bijective(g, d):
    n = g.width()
    op = g.rng.choice(['+', '^'])
    x, a, b = g.expr(n, d), g.expr(n, d), g.expr(n, d)
    forms = [ExprOp('==', ExprOp(op, x, a), ExprOp(op, x, b)),
             ExprOp('==', ExprOp(op, a, x), x),
             ExprOp('==', x, ExprOp(op, x, a, b)),
             ExprOp('==', ExprOp(op, x, a), ExprOp(op, a, x)),
             ExprOp('==', ExprOp(op, x, a, b), ExprOp(op, a, x)),
             ExprOp('==', x, x)]
    return g.rng.choice(forms)


def t_cond_logic_ext(g, d):
    n = _w2(g)
    m = _smaller(g, n)
    op = g.rng.choice(['&', '^', '|'])
    args = [ExprOp('zeroExt_%d' % n, g.expr(m, d))]
    if g.rng.random() < 0.5:
        args.append(ExprOp('zeroExt_%d' % n, g.expr(m, d)))
    args.append(_ext_const(g, m, n))
    s = g.width()
    return ExprCond(ExprOp(op, *args), g.expr(s, d), g.expr(s, d))


def t_zeroext_and_cst_eq_cst(g, d):
    n = _w2(g)
    m = _smaller(g, n)
    args = [ExprOp('zeroExt_%d' % n, g.expr(m, d)), _ext_const(g, m, n)]
    return ExprOp('==', ExprOp('&', *args), _ext_const(g, m, n))


def t_cond_signbit(g, d):
    n = g.width()
    s = g.width()
    k = g.rng.choice([1, 2])
    c = ExprOp('&', *([g.expr(n, d) for _ in range(k)] + [ExprInt(1 << (n - 1), n)]))
    return ExprCond(c, g.expr(s, d), g.expr(s, d))


def t_cond_addxor(g, d):
    n = g.width()
    s = g.width()
    op = g.rng.choice(['+', '^'])
    return ExprCond(ExprOp(op, g.expr(n, d), g.expr(n, d)), g.expr(s, d), g.expr(s, d))


def t_cond_cmp_10(g, d):
    n = g.width()
    op = g.rng.choice(CMPS)
    a, b = g.expr(n, d), g.expr(n, d)
    if g.rng.random() < 0.3:
        a = g.int_(n)
    v = g.rng.random()
    if v < 0.5:
        return ExprCond(ExprOp(op, a, b), ExprInt(1, 1), ExprInt(0, 1))
    s = g.width()
    return ExprCond(ExprOp(op, a, b), g.expr(s, d), g.expr(s, d))


def t_cond_eq_zero(g, d):
    n = g.width()
    s = g.width()
    return ExprCond(ExprOp('==', g.expr(n, d), ExprInt(0, n)), g.expr(s, d), g.expr(s, d))


def t_cond_misc(g, d):
    n = g.width()
    s = g.width()
    a, b = g.expr(s, d), g.expr(s, d)
    x = g.expr(n, d)
    c1 = g.expr(1, d)
    forms = [
        lambda: ExprCond(ExprOp('-', x), a, b),
        lambda: ExprCond(x, a, a),
        lambda: ExprCond(g.int_(n), a, b),
        lambda: ExprCond(x, ExprCond(x, a, b), b),
        lambda: ExprCond(x, a, ExprCond(x, b, a)),
        lambda: ExprCond(ExprOp('|', x, g.int_(n)), a, b),
        lambda: ExprCond(ExprCond(x, g.int_(n), g.int_(n)), a, b),
        lambda: ExprCond(ExprCompose(ExprInt(0, 3), x, ExprInt(0, 2)), a, b),
        lambda: ExprCond(ExprCompose(ExprInt(0, 3), x, g.expr(4, d)), a, b),
        lambda: ExprCond(c1, ExprOp('+', ExprOp('zeroExt_%d' % s, c1), a) if s > 1 else a, b),
        lambda: ExprCond(ExprOp('zeroExt_%d' % (n + 8), x), a, b),
        lambda: ExprCond(ExprOp('signExt_%d' % (n + 8), x), a, b),
        lambda: ExprCond(ExprOp('FLAG_EQ_CMP', x, g.expr(n, d)), a, b),
        lambda: ExprCond(ExprOp('FLAG_SUB_CF', x, g.expr(n, d)), a, b),
        lambda: ExprCond(ExprOp('CC_U<', c1), a, b),
        lambda: ExprCond(ExprOp('CC_U>=', c1), a, b),
        lambda: ExprCond(ExprOp('==', ExprOp('&', x, ExprInt(1 << g.rng.randrange(n), n)),
                                ExprInt(1 << g.rng.randrange(n), n)), a, b),
    ]
    return g.rng.choice(forms)()


def t_x_and_bit_eq_bit(g, d):
    n = g.width()
    s = g.width()
    bit = ExprInt(1 << g.rng.randrange(n), n)
    bit2 = bit if g.rng.random() < 0.8 else ExprInt(1 << g.rng.randrange(n), n)
    k = g.rng.choice([1, 2])
    c = ExprOp('==', ExprOp('&', *([g.expr(n, d) for _ in range(k)] + [bit])), bit2)
    return ExprCond(c, g.expr(s, d), g.expr(s, d))


def t_cc_flags(g, d):
    n = g.width()
    a, b = g.expr(n, d), g.expr(n, d)
    if g.rng.random() < 0.3:
        b = g.int_(n)
    same = g.rng.random() < 0.85
    a2, b2 = (a, b) if same else (g.expr(n, d), b)
    z = ExprInt(0, 1)
    forms = [
        ('CC_U>=', [('FLAG_SUB_CF', a, b)]), ('CC_U<', [('FLAG_SUB_CF', a, b)]),
        ('CC_NEG', [('FLAG_SIGN_SUB', a, b)]), ('CC_POS', [('FLAG_SIGN_SUB', a, b)]),
        ('CC_EQ', [('FLAG_EQ', a)]), ('CC_NE', [('FLAG_EQ', a)]),
        ('CC_NE', [('FLAG_EQ_CMP', a, b)]), ('CC_EQ', [('FLAG_EQ_CMP', a, b)]),
        ('CC_NE', [('FLAG_EQ_AND', a, b)]), ('CC_EQ', [('FLAG_EQ_AND', a, b)]),
        ('CC_S>', [('FLAG_SIGN_SUB', a, b), ('FLAG_SUB_OF', a2, b2), ('FLAG_EQ_CMP', a, b)]),
        ('CC_S>', [('FLAG_SIGN_SUB', a, b), z, ('FLAG_EQ_CMP', a, b)]),
        ('CC_S>=', [('FLAG_SIGN_SUB', a, b), ('FLAG_SUB_OF', a2, b2)]),
        ('CC_S>=', [('FLAG_SIGN_SUB', a, ExprInt(0, n)), z]),
        ('CC_S<', [('FLAG_SIGN_SUB', a, b), ('FLAG_SUB_OF', a2, b2)]),
        ('CC_S<=', [('FLAG_SIGN_SUB', a, b), ('FLAG_SUB_OF', a2, b2), ('FLAG_EQ_CMP', a, b)]),
        ('CC_S<=', [('FLAG_SIGN_SUB', a, b), z, ('FLAG_EQ_CMP', a, b)]),
        ('CC_U<=', [('FLAG_SUB_CF', a, b), ('FLAG_EQ_CMP', a2, b2)]),
        ('CC_U>', [('FLAG_SUB_CF', a, b), ('FLAG_EQ_CMP', a2, b2)]),
        ('CC_S<', [('FLAG_SIGN_ADD', a, b), ('FLAG_ADD_OF', a2, b2)]),
    ]
    cc, fl = g.rng.choice(forms)
    args = []
    for f in fl:
        if isinstance(f, tuple):
            args.append(ExprOp(f[0], *f[1:]))
        else:
            args.append(f)
    return ExprOp(cc, *args)


def t_subwc(g, d):
    n = g.rng.choice([w for w in g.widths if w <= g.max_width // 2] or [8])
    m = g.rng.choice([w for w in g.widths if w + n <= g.max_width] or [8])
    op = g.rng.choice(['FLAG_SUBWC_CF', 'FLAG_SUBWC_OF', 'FLAG_SIGN_SUBWC'])
    return ExprOp(op, g.expr(n, d), g.expr(n, d),
                  ExprOp('FLAG_SUB_CF', g.expr(m, d), g.expr(m, d)))


def t_flag_cst(g, d):
    n = g.width()
    k = g.rng.random()
    if k < 0.5:
        op = g.rng.choice(FLAGS2)
        return ExprOp(op, g.int_(n), g.int_(n))
    if k < 0.6:
        return ExprOp('FLAG_EQ', g.int_(n))
    if k < 0.85:
        return ExprOp(g.rng.choice(FLAGS3), g.int_(n), g.int_(n), g.int_(1))
    op = g.rng.choice(sorted(CCS))
    return ExprOp(op, *[g.int_(1) for _ in range(CCS[op])])


def t_sub_cf_zero(g, d):
    n = g.width()
    return ExprOp('FLAG_SUB_CF', ExprInt(0, n), g.expr(n, d))


def t_double_ext(g, d):
    n = _w2(g, 3)
    m = _smaller(g, n)
    if m < 2:
        return None
    k = _smaller(g, m)
    e1 = g.rng.choice(['zeroExt_%d', 'signExt_%d'])
    e2 = e1 if g.rng.random() < 0.7 else g.rng.choice(['zeroExt_%d', 'signExt_%d'])
    return ExprOp(e1 % n, ExprOp(e2 % m, g.expr(k, d)))


def t_ext_cond_int(g, d):
    n = _w2(g)
    m = _smaller(g, n)
    e1 = g.rng.choice(['zeroExt_%d', 'signExt_%d']) % n
    k = g.rng.random()
    if k < 0.4:
        return ExprOp(e1, ExprCond(g.expr(g.width(), d), g.int_(m), g.int_(m)))
    return ExprOp(e1, g.int_(m))


def t_slice_ext(g, d):
    n = _w2(g)
    m = _smaller(g, n)
    e1 = g.rng.choice(['zeroExt_%d', 'signExt_%d']) % n
    start = g.rng.choice([0, 0, m, max(0, m - 1), g.rng.randrange(0, n)])
    stop = g.rng.choice([m, n, min(n, m + 1), g.rng.randrange(start + 1, n + 1)])
    if stop <= start:
        stop = start + 1
    return ExprSlice(ExprOp(e1, g.expr(m, d)), start, stop)


def t_slice_op_ext(g, d):
    n = _w2(g)
    m = _smaller(g, n)
    op = g.rng.choice(['+', '|', '^', '&'])
    args = [ExprOp('zeroExt_%d' % n, g.expr(m, d))]
    if g.rng.random() < 0.5:
        args.append(ExprOp('zeroExt_%d' % n, g.expr(m, d)))
    if g.rng.random() < 0.4 and n - m >= 1:
        args.append(ExprCompose(g.expr(m, d), g.expr(n - m, d)))
    args.append(g.int_(n))
    stop = m if g.rng.random() < 0.8 else g.rng.randrange(1, n + 1)
    return ExprSlice(ExprOp(op, *args), 0, stop)


def t_slice_misc(g, d):
    n = _w2(g)
    r = g.rng
    start = r.randrange(0, n)
    stop = r.randrange(start + 1, n + 1)
    x = g.expr(n, d)
    forms = [
        lambda: ExprSlice(x, 0, n),
        lambda: ExprSlice(g.int_(n), start, stop),
        lambda: ExprSlice(ExprSlice(g.expr(n + 8, d), 3, 3 + n), start, stop),
        lambda: ExprSlice(g._try(0.8, n, d + 1) or x, start, stop),      # compose
        lambda: ExprSlice(ExprMem(g.expr(r.choice(g.ptr_widths), 1), ((n + 7) // 8) * 8 + 8), 0,
                          r.choice([8, 16, stop])),
        lambda: ExprSlice(ExprOp('&', x, g.int_(n)), start, stop),
        lambda: ExprSlice(ExprCond(g.expr(1, d), g.int_(n), g.int_(n)), start, stop),
        lambda: ExprSlice(ExprCond(g.expr(8, d), g._try(0.8, n, d + 1) or x, g.int_(n)), start, stop),
        lambda: ExprSlice(ExprOp('*', x, g.int_(n)), 0, stop),
        lambda: ExprSlice(ExprOp('>>', x, g.small_int(n)), start, stop),
        lambda: ExprSlice(ExprOp('<<', x, g.small_int(n)), start, stop),
    ]
    return r.choice(forms)()


def t_compose_misc(g, d):
    r = g.rng
    n = r.choice([w for w in g.widths if 8 <= w <= g.max_width // 2] or [8])
    x = g.expr(2 * n, d)
    a = g.expr(n, d)
    pw = r.choice(g.ptr_widths)
    p = g.expr(pw, 1)
    z = r.randrange(1, 2 * n)
    forms = [
        lambda: ExprCompose(x[0:n], x[n:2 * n]),
        lambda: ExprCompose(x[0:z], x[z:2 * n]),
        lambda: ExprCompose(ExprCompose(a, a), g.expr(8, d)),
        lambda: ExprCompose(x[z:2 * n], ExprInt(0, z)),
        lambda: ExprCompose(ExprMem(p, 8), ExprMem(p + ExprInt(1, pw), 8)),
        lambda: ExprCompose(ExprMem(p, 16), ExprMem(p + ExprInt(2, pw), 8), a),
        lambda: ExprCompose(ExprMem(p, 16), ExprMem(p + ExprInt(1, pw), 16)),
        lambda: ExprCompose(a, a.signExtend(2 * n)[n:2 * n]),
        lambda: ExprCompose(a, ExprCond(g.expr(1, d), g.expr(8, d), g.expr(8, d)),
                            ExprCond(g.expr(1, 0), g.expr(8, d), g.expr(8, d))),
        lambda: ExprCompose(g.int_(8), g.int_(8), a),
        lambda: ExprCompose(a),
    ]
    return r.choice(forms)()


def t_compose_and_mask(g, d):
    r = g.rng
    parts = [r.choice([4, 8, 16]) for _ in range(r.choice([2, 3]))]
    n = sum(parts)
    args = [g.expr(s, d) if r.random() < 0.6 else g.int_(s) for s in parts]
    k = r.choice([parts[0], parts[0] + parts[1], 8, 16, 12, 3, n - 1])
    k = max(1, min(k, n))
    return ExprOp('&', ExprCompose(*args), ExprInt((1 << k) - 1, n))


def t_shift_misc(g, d):
    r = g.rng
    n = g.width()
    x = g.expr(n, d)
    c1, c2 = g.small_int(n), g.small_int(n)
    s1, s2 = r.choice(['<<', '>>']), r.choice(['<<', '>>'])
    r1, r2 = r.choice(['<<<', '>>>']), r.choice(['<<<', '>>>'])
    y = g.expr(n, d)
    forms = [
        lambda: ExprOp(s1, ExprOp(s2, x, c1), c1),
        lambda: ExprOp(s1, ExprOp(s1, x, c1), c2),
        lambda: ExprOp(s1, ExprOp(s1, x, y), g.expr(n, d)),
        lambda: ExprOp(r1, ExprOp(r2, x, c1), c2),
        lambda: ExprOp(r1, ExprOp(r2, x, y), y),
        lambda: ExprOp(r1, x, ExprInt(n, n)) if n >= 2 and n < (1 << n) else None,
        lambda: ExprOp('>>', ExprOp('&', x, g.int_(n)), c1),
        lambda: ExprOp(s1, g._try(0.8, n, d + 1) or x, c1),
        lambda: ExprOp(r.choice(SHIFTS), g.int_(n), g.small_int(n)),
        lambda: ExprOp(r.choice(SHIFTS), x, ExprInt(0, n)),
        lambda: ExprOp(r.choice(['|', '&', '^']), g._try(0.8, n, d + 1) or x, g._try(0.8, n, d + 1) or x),
    ]
    return r.choice(forms)()


def t_add_multiple(g, d):
    r = g.rng
    n = g.width()
    x, y = g.expr(n, d), g.expr(n, d)
    terms = []
    for _ in range(r.choice([2, 3, 4])):
        k = r.random()
        base = x if r.random() < 0.7 else y
        if k < 0.25:
            terms.append(base)
        elif k < 0.45:
            terms.append(ExprOp('*', base, g.int_(n)))
        elif k < 0.6:
            terms.append(ExprOp('<<', base, ExprInt(r.randrange(0, min(n, 12) + 1) % (1 << n), n)))
        elif k < 0.75:
            terms.append(ExprOp('-', base))
        elif k < 0.85:
            terms.append(ExprOp('-', ExprOp('<<', base, ExprInt(r.randrange(0, min(n, 12) + 1) % (1 << n), n))))
        else:
            terms.append(ExprOp('+', x, y))
    return ExprOp('+', *terms)


def t_arith_ident(g, d):
    r = g.rng
    n = g.width()
    x, y = g.expr(n, d), g.expr(n, d)
    m = ExprInt((1 << n) - 1, n)
    forms = [
        lambda: ExprOp('-', ExprOp('-', x)),
        lambda: ExprOp('-', g.int_(n)),
        lambda: ExprOp(r.choice(['+', '|', '^']), x, ExprInt(0, n)),
        lambda: ExprOp('-', x, ExprInt(0, n)),
        lambda: ExprOp('*', x, ExprInt(1, n)),
        lambda: ExprOp('*', x, m),
        lambda: ExprOp('-', x, y),
        lambda: ExprOp(r.choice(['&', '*']), x, ExprInt(0, n)),
        lambda: ExprOp('-', ExprOp('+', x, y)),
        lambda: ExprOp('-', ExprCond(g.expr(1, d), g.int_(n), g.int_(n))),
        lambda: ExprOp('^', x, y, x),
        lambda: ExprOp('+', x, y, ExprOp('-', x)),
        lambda: ExprOp('+', ExprOp('-', x), y, x),
        lambda: ExprOp(r.choice(['|', '&']), x, y, x),
        lambda: ExprOp('&', x, m),
        lambda: ExprOp('|', x, m),
        lambda: ExprOp('*', ExprOp('-', x), y, ExprOp('-', y)),
        lambda: ExprOp('-', ExprOp('*', x, y, g.int_(n))),
        lambda: ExprOp(r.choice(ASSOC), g.int_(n), g.int_(n), x),
        lambda: ExprOp(r.choice(DIVS), g.int_(n), g.int_(n)),
        lambda: ExprOp(r.choice(['cntleadzeros', 'cnttrailzeros']), g.int_(n)),
        lambda: ExprOp('parity', g.int_(n)),
        lambda: ExprOp(r.choice(ASSOC), ExprCond(g.expr(1, 0), x, y), ExprCond(g.expr(1, 0), y, x)),
        lambda: ExprOp(r.choice(ASSOC), ExprCond(g.expr(1, 0), g.int_(n), g.int_(n)), g.int_(n)),
        lambda: ExprOp(r.choice(['<<', '>>', 'a>>']), ExprCond(g.expr(1, 0), x, y), g.small_int(n)),
        lambda: ExprOp(r.choice(CMPS), g.int_(n), g.int_(n)),
        lambda: ExprOp('<=u', x, ExprInt(0, n)),
    ]
    return r.choice(forms)()


def t_smod_sext(g, d):
    n = _w2(g)
    m = _smaller(g, n)
    a = ExprOp('signExt_%d' % n, g.expr(m, d))
    k = g.rng.random()
    if k < 0.4:
        b = ExprOp('signExt_%d' % n, g.expr(m, d))
    elif k < 0.8:
        b = _ext_const(g, m, n)
    else:
        b = ExprOp('signExt_%d' % n, g.expr(_smaller(g, n), d))
    if g.rng.random() < 0.25:
        a, b = b, a
    return ExprOp('smod', a, b)


def t_mem_cond(g, d):
    pw = g.rng.choice(g.ptr_widths)
    return ExprMem(ExprCond(g.expr(g.width(), d), g.expr(pw, d), g.expr(pw, d)),
                   g.rng.choice([8, 16, 32, 64]))


def t_bcd(g, d):
    op = g.rng.choice(['bcdadd', 'bcdadd_cf'])
    def bcd():
        return ExprInt(sum(g.rng.randrange(10) << (4 * i) for i in range(4)), 16)
    return ExprOp(op, bcd(), bcd())


TEMPLATES = [t_ext_cmp_cst, t_ext_cmp_cst, t_ext_eq_ext, t_compose0_eq_cst, t_addxor_eq_cst,
             t_cmp_bijective, t_cond_logic_ext, t_zeroext_and_cst_eq_cst, t_cond_signbit,
             t_cond_addxor, t_cond_cmp_10, t_cond_eq_zero, t_cond_misc, t_cond_misc, t_cc_flags,
             t_cc_flags, t_subwc, t_flag_cst, t_sub_cf_zero, t_double_ext, t_ext_cond_int,
             t_slice_ext, t_slice_op_ext, t_slice_misc, t_slice_misc, t_compose_misc,
             t_compose_and_mask, t_shift_misc, t_shift_misc, t_add_multiple, t_arith_ident,
             t_arith_ident, t_smod_sext, t_mem_cond, t_bcd, t_x_and_bit_eq_bit]


def shape(e):
    """structural shape after alpha-renaming (identifier names and constant
    values dropped): used for distinct_nontrivial"""
    cls = e.__class__.__name__
    if cls == 'ExprInt':
        return 'i%d' % e.size
    if cls == 'ExprId':
        return 'v%d' % e.size
    if cls == 'ExprLoc':
        return 'l%d' % e.size
    if cls == 'ExprMem':
        return 'M%d(%s)' % (e.size, shape(e.ptr))
    if cls == 'ExprSlice':
        return 'S%d:%d(%s)' % (e.start, e.stop, shape(e.arg))
    if cls == 'ExprCompose':
        return 'C(%s)' % ','.join(shape(a) for a in e.args)
    if cls == 'ExprCond':
        return '?(%s,%s,%s)' % (shape(e.cond), shape(e.src1), shape(e.src2))
    if cls == 'ExprOp':
        return '%s(%s)' % (e.op, ','.join(shape(a) for a in e.args))
    if cls == 'ExprAssign':
        return '=(%s,%s)' % (shape(e.dst), shape(e.src))
    return cls


def nontrivial(e):
    return e.__class__.__name__ not in ('ExprInt', 'ExprId', 'ExprLoc')
