/* x86host.c -- native single-instruction executor (oracle of C18).
 *
 *   x86host <in-file> <out-file> [cpu-seconds-per-batch]
 *
 * in-file : sequence of struct case_in   (little endian, packed, see below)
 * out-file: sequence of struct case_out  (same order, one per input record)
 *
 * For every case: a data window of one page is (re)filled at WINDOW_ADDR, the
 * code page at CODE_ADDR is filled with int3 and the instruction bytes are put
 * at CODE_ADDR+CODE_OFF followed by an absolute jump back to the trampoline
 * (control transfers are run without that stub, opts bit 0, so that a branch
 * target can never fall inside it).
 * The trampoline loads RFLAGS (status bits + DF), XMM0-15 and all 16 GPRs
 * (RSP included) from the input vector, jumps to the instruction, and on the
 * way back stores everything on a private stack / state block.
 *
 * Outcomes:
 *   0          the instruction fell through (state stored by the trampoline)
 *   1          control left the instruction to another address of the code
 *              page (int3 fill hit): state taken from the signal context,
 *              rip = address reached
 *   100+signo  SIGFPE/SIGSEGV/SIGILL/SIGBUS/SIGTRAP(other)/SIGSYS caught on the
 *              alternate stack; registers of the signal context are reported
 *   250        the executing child died / ran out of CPU on this case
 *
 * The whole batch runs in a forked child with RLIMIT_CPU and a seccomp filter
 * (every system call except exit_group/rt_sigreturn traps with SIGSYS, so a
 * mis-filtered `syscall` instruction cannot do anything); results go through a
 * MAP_SHARED mapping of the output file so that a dying child loses nothing.
 */
#define _GNU_SOURCE
#include <errno.h>
#include <fcntl.h>
#include <signal.h>
#include <setjmp.h>
#include <stddef.h>
#include <stdint.h>
#include <stdio.h>
#include <stdlib.h>
#include <string.h>
#include <sys/mman.h>
#include <sys/prctl.h>
#include <sys/resource.h>
#include <sys/stat.h>
#include <sys/syscall.h>
#include <sys/wait.h>
#include <ucontext.h>
#include <unistd.h>
#include <linux/filter.h>
#include <linux/seccomp.h>
#include <linux/audit.h>

#define WINDOW_ADDR 0x10000000UL
#define WINDOW_SIZE 4096
#define CODE_ADDR   0x20000000UL
#define CODE_SIZE   4096
#define CODE_OFF    0x800
#define PAGE        4096

#define FLAG_MASK   0xCD5UL     /* CF PF AF ZF SF | DF OF */
#define FLAG_BASE   0x202UL     /* bit1, IF */

#pragma pack(push, 1)
struct case_in {
	uint8_t  code[16];
	uint32_t codelen;
	uint32_t opts;         /* bit 0: no jump-back stub (control transfers): falling
	                        * through then hits the int3 fill like any other target */
	uint64_t gpr[16];      /* RAX RCX RDX RBX RSP RBP RSI RDI R8..R15 */
	uint64_t rflags;
	uint8_t  xmm[16][16];
	uint8_t  window[WINDOW_SIZE];
};
struct case_out {
	uint32_t outcome;
	uint32_t si_code;
	uint64_t fault_addr;
	uint64_t rip;          /* address of the next instruction / faulting instruction */
	uint64_t gpr[16];
	uint64_t rflags;
	uint8_t  xmm[16][16];
	uint8_t  window[WINDOW_SIZE];
};
#pragma pack(pop)

/* state block used by the trampoline (offsets are used from the asm below) */
struct tramp_state {
	uint64_t gpr[16];      /*   0 */
	uint64_t rflags;       /* 128 */
	uint64_t host_rsp;     /* 136 */
	uint64_t code_ptr;     /* 144 */
	uint64_t scratch;      /* 152 */
	uint8_t  xmm[16][16];  /* 160 */
} __attribute__((aligned(64)));

struct tramp_state g_st;
extern void tramp_enter(void);
extern void tramp_exit(void);

__asm__(
"	.text\n"
"	.globl tramp_enter\n"
"	.type tramp_enter,@function\n"
"tramp_enter:\n"
"	pushq %rbx\n"
"	pushq %rbp\n"
"	pushq %r12\n"
"	pushq %r13\n"
"	pushq %r14\n"
"	pushq %r15\n"
"	leaq g_st(%rip), %rax\n"
"	movq %rsp, 136(%rax)\n"
"	movdqu 160(%rax), %xmm0\n"
"	movdqu 176(%rax), %xmm1\n"
"	movdqu 192(%rax), %xmm2\n"
"	movdqu 208(%rax), %xmm3\n"
"	movdqu 224(%rax), %xmm4\n"
"	movdqu 240(%rax), %xmm5\n"
"	movdqu 256(%rax), %xmm6\n"
"	movdqu 272(%rax), %xmm7\n"
"	movdqu 288(%rax), %xmm8\n"
"	movdqu 304(%rax), %xmm9\n"
"	movdqu 320(%rax), %xmm10\n"
"	movdqu 336(%rax), %xmm11\n"
"	movdqu 352(%rax), %xmm12\n"
"	movdqu 368(%rax), %xmm13\n"
"	movdqu 384(%rax), %xmm14\n"
"	movdqu 400(%rax), %xmm15\n"
"	pushq 128(%rax)\n"
"	popfq\n"
"	movq 8(%rax), %rcx\n"
"	movq 16(%rax), %rdx\n"
"	movq 24(%rax), %rbx\n"
"	movq 40(%rax), %rbp\n"
"	movq 48(%rax), %rsi\n"
"	movq 56(%rax), %rdi\n"
"	movq 64(%rax), %r8\n"
"	movq 72(%rax), %r9\n"
"	movq 80(%rax), %r10\n"
"	movq 88(%rax), %r11\n"
"	movq 96(%rax), %r12\n"
"	movq 104(%rax), %r13\n"
"	movq 112(%rax), %r14\n"
"	movq 120(%rax), %r15\n"
"	movq 32(%rax), %rsp\n"
"	movq 0(%rax), %rax\n"
"	jmpq *g_st+144(%rip)\n"
"	.globl tramp_exit\n"
"tramp_exit:\n"
"	movq %rax, g_st+152(%rip)\n"        /* no flag is touched by mov/lea */
"	leaq g_st(%rip), %rax\n"
"	movq %rsp, 32(%rax)\n"
"	movq 136(%rax), %rsp\n"
"	pushfq\n"
"	popq 128(%rax)\n"
"	cld\n"
"	movq %rcx, 8(%rax)\n"
"	movq %rdx, 16(%rax)\n"
"	movq %rbx, 24(%rax)\n"
"	movq %rbp, 40(%rax)\n"
"	movq %rsi, 48(%rax)\n"
"	movq %rdi, 56(%rax)\n"
"	movq %r8, 64(%rax)\n"
"	movq %r9, 72(%rax)\n"
"	movq %r10, 80(%rax)\n"
"	movq %r11, 88(%rax)\n"
"	movq %r12, 96(%rax)\n"
"	movq %r13, 104(%rax)\n"
"	movq %r14, 112(%rax)\n"
"	movq %r15, 120(%rax)\n"
"	movq 152(%rax), %rcx\n"
"	movq %rcx, 0(%rax)\n"
"	movdqu %xmm0, 160(%rax)\n"
"	movdqu %xmm1, 176(%rax)\n"
"	movdqu %xmm2, 192(%rax)\n"
"	movdqu %xmm3, 208(%rax)\n"
"	movdqu %xmm4, 224(%rax)\n"
"	movdqu %xmm5, 240(%rax)\n"
"	movdqu %xmm6, 256(%rax)\n"
"	movdqu %xmm7, 272(%rax)\n"
"	movdqu %xmm8, 288(%rax)\n"
"	movdqu %xmm9, 304(%rax)\n"
"	movdqu %xmm10, 320(%rax)\n"
"	movdqu %xmm11, 336(%rax)\n"
"	movdqu %xmm12, 352(%rax)\n"
"	movdqu %xmm13, 368(%rax)\n"
"	movdqu %xmm14, 384(%rax)\n"
"	movdqu %xmm15, 400(%rax)\n"
"	popq %r15\n"
"	popq %r14\n"
"	popq %r13\n"
"	popq %r12\n"
"	popq %rbp\n"
"	popq %rbx\n"
"	ret\n"
"	.size tramp_enter, .-tramp_enter\n"
);

static sigjmp_buf g_jmp;
static volatile int g_in_guest;
static struct case_out *g_cur;
static uint8_t *g_window, *g_code;
static uint32_t g_mxcsr = 0x1f80;

static const int greg_map[16] = {
	REG_RAX, REG_RCX, REG_RDX, REG_RBX, REG_RSP, REG_RBP, REG_RSI, REG_RDI,
	REG_R8, REG_R9, REG_R10, REG_R11, REG_R12, REG_R13, REG_R14, REG_R15
};

static void on_signal(int signo, siginfo_t *si, void *ctx)
{
	ucontext_t *uc = (ucontext_t *)ctx;
	struct case_out *o = g_cur;
	int i;

	if (!g_in_guest || o == NULL) {
		/* a fault of the harness itself: die, the parent marks the case */
		_exit(70);
	}
	g_in_guest = 0;
	uint64_t rip = (uint64_t)uc->uc_mcontext.gregs[REG_RIP];
	o->si_code = (uint32_t)si->si_code;
	o->fault_addr = (uint64_t)si->si_addr;
	for (i = 0; i < 16; i++)
		o->gpr[i] = (uint64_t)uc->uc_mcontext.gregs[greg_map[i]];
	o->rflags = (uint64_t)uc->uc_mcontext.gregs[REG_EFL];
	if (uc->uc_mcontext.fpregs)
		memcpy(o->xmm, uc->uc_mcontext.fpregs->_xmm, 256);
	if (signo == SIGTRAP && rip - 1 >= CODE_ADDR && rip - 1 < CODE_ADDR + CODE_SIZE &&
	    rip - 1 != CODE_ADDR + CODE_OFF && g_code[rip - 1 - CODE_ADDR] == 0xCC &&
	    !(o->rflags & 0x100)) {
		/* landed on the int3 fill: a control transfer to rip-1 */
		o->outcome = 1;
		o->rip = rip - 1;
	} else {
		o->outcome = 100 + (uint32_t)signo;
		o->rip = rip;
	}
	siglongjmp(g_jmp, 1);
}

static void install_handlers(void)
{
	static uint8_t *altstack;
	stack_t ss;
	struct sigaction sa;
	int sigs[] = { SIGFPE, SIGSEGV, SIGILL, SIGBUS, SIGTRAP, SIGSYS };
	unsigned i;

	altstack = mmap(NULL, 1 << 16, PROT_READ | PROT_WRITE, MAP_PRIVATE | MAP_ANONYMOUS, -1, 0);
	ss.ss_sp = altstack;
	ss.ss_size = 1 << 16;
	ss.ss_flags = 0;
	if (sigaltstack(&ss, NULL)) {
		perror("sigaltstack");
		exit(3);
	}
	memset(&sa, 0, sizeof sa);
	sa.sa_sigaction = on_signal;
	sa.sa_flags = SA_SIGINFO | SA_ONSTACK | SA_NODEFER;
	sigemptyset(&sa.sa_mask);
	for (i = 0; i < sizeof sigs / sizeof sigs[0]; i++)
		sigaction(sigs[i], &sa, NULL);
}

static int install_seccomp(void)
{
	struct sock_filter filter[] = {
		BPF_STMT(BPF_LD | BPF_W | BPF_ABS, offsetof(struct seccomp_data, arch)),
		BPF_JUMP(BPF_JMP | BPF_JEQ | BPF_K, AUDIT_ARCH_X86_64, 1, 0),
		BPF_STMT(BPF_RET | BPF_K, SECCOMP_RET_KILL_PROCESS),
		BPF_STMT(BPF_LD | BPF_W | BPF_ABS, offsetof(struct seccomp_data, nr)),
		BPF_JUMP(BPF_JMP | BPF_JEQ | BPF_K, __NR_exit_group, 2, 0),
		BPF_JUMP(BPF_JMP | BPF_JEQ | BPF_K, __NR_rt_sigreturn, 1, 0),
		BPF_STMT(BPF_RET | BPF_K, SECCOMP_RET_TRAP),
		BPF_STMT(BPF_RET | BPF_K, SECCOMP_RET_ALLOW),
	};
	struct sock_fprog prog = { sizeof filter / sizeof filter[0], filter };
	if (prctl(PR_SET_NO_NEW_PRIVS, 1, 0, 0, 0))
		return -1;
	if (prctl(PR_SET_SECCOMP, SECCOMP_MODE_FILTER, &prog))
		return -1;
	return 0;
}

static void *map_fixed(unsigned long addr, int prot)
{
	/* guard page, page, guard page: neighbours are guaranteed unmapped */
	void *p = mmap((void *)(addr - PAGE), 3 * PAGE, PROT_NONE,
		       MAP_PRIVATE | MAP_ANONYMOUS | MAP_FIXED_NOREPLACE, -1, 0);
	if (p == MAP_FAILED || (unsigned long)p != addr - PAGE) {
		perror("mmap fixed");
		exit(3);
	}
	if (mprotect((void *)addr, PAGE, prot)) {
		perror("mprotect");
		exit(3);
	}
	return (void *)addr;
}

static void run_case(const struct case_in *in, struct case_out *out)
{
	unsigned len = in->codelen;
	uint8_t *p;
	int i;

	if (len > 15)
		len = 15;
	memcpy(g_window, in->window, WINDOW_SIZE);
	memset(g_code, 0xCC, CODE_SIZE);
	p = g_code + CODE_OFF;
	memcpy(p, in->code, len);
	p += len;
	if (!(in->opts & 1)) {
		/* jmp *[rip+0] ; .quad tramp_exit */
		p[0] = 0xFF; p[1] = 0x25; p[2] = p[3] = p[4] = p[5] = 0;
		uint64_t target = (uint64_t)(uintptr_t)&tramp_exit;
		memcpy(p + 6, &target, 8);
	}

	for (i = 0; i < 16; i++)
		g_st.gpr[i] = in->gpr[i];
	g_st.rflags = FLAG_BASE | (in->rflags & FLAG_MASK);
	memcpy(g_st.xmm, in->xmm, 256);
	g_st.code_ptr = CODE_ADDR + CODE_OFF;

	g_cur = out;
	__asm__ volatile("ldmxcsr %0" :: "m"(g_mxcsr));
	if (sigsetjmp(g_jmp, 0) == 0) {
		g_in_guest = 1;
		tramp_enter();
		g_in_guest = 0;
		out->outcome = 0;
		out->rip = CODE_ADDR + CODE_OFF + len;
		for (i = 0; i < 16; i++)
			out->gpr[i] = g_st.gpr[i];
		out->rflags = g_st.rflags;
		memcpy(out->xmm, g_st.xmm, 256);
	} else {
		/* came back from the signal handler; the direction flag and the
		 * x87/MMX state may be anything */
		__asm__ volatile("cld");
	}
	__asm__ volatile("emms");
	memcpy(out->window, g_window, WINDOW_SIZE);
	__sync_synchronize();
}

int main(int argc, char **argv)
{
	struct stat sb;
	long cpu_s = 20;
	size_t n, i, start;
	int fdin, fdout;

	if (argc < 3) {
		fprintf(stderr, "usage: x86host in out [cpu-seconds]\n");
		return 2;
	}
	if (argc > 3)
		cpu_s = atol(argv[3]);
	fdin = open(argv[1], O_RDONLY);
	if (fdin < 0 || fstat(fdin, &sb)) {
		perror("in");
		return 2;
	}
	if (sb.st_size % sizeof(struct case_in)) {
		fprintf(stderr, "input size is not a multiple of %zu\n", sizeof(struct case_in));
		return 2;
	}
	n = sb.st_size / sizeof(struct case_in);
	fdout = open(argv[2], O_RDWR | O_CREAT | O_TRUNC, 0600);
	if (fdout < 0 || ftruncate(fdout, n * sizeof(struct case_out) + sizeof(uint64_t))) {
		perror("out");
		return 2;
	}
	if (n == 0)
		return 0;
	const struct case_in *in = mmap(NULL, sb.st_size, PROT_READ, MAP_PRIVATE, fdin, 0);
	uint8_t *outmap = mmap(NULL, n * sizeof(struct case_out) + sizeof(uint64_t),
			       PROT_READ | PROT_WRITE, MAP_SHARED, fdout, 0);
	if (in == MAP_FAILED || outmap == MAP_FAILED) {
		perror("mmap");
		return 2;
	}
	/* progress word at the end of the file: number of cases finished */
	volatile uint64_t *progress = (volatile uint64_t *)(outmap + n * sizeof(struct case_out));
	struct case_out *out = (struct case_out *)outmap;

	start = 0;
	while (start < n) {
		pid_t pid = fork();
		if (pid < 0) {
			perror("fork");
			return 2;
		}
		if (pid == 0) {
			struct rlimit rl = { (rlim_t)cpu_s, (rlim_t)cpu_s + 1 };
			setrlimit(RLIMIT_CPU, &rl);
			rl.rlim_cur = rl.rlim_max = 0;
			setrlimit(RLIMIT_CORE, &rl);
			g_window = map_fixed(WINDOW_ADDR, PROT_READ | PROT_WRITE);
			g_code = map_fixed(CODE_ADDR, PROT_READ | PROT_WRITE | PROT_EXEC);
			install_handlers();
			if (install_seccomp()) {
				/* without the filter nothing is executed */
				_exit(71);
			}
			for (i = start; i < n; i++) {
				run_case(&in[i], &out[i]);
				*progress = i + 1;
			}
			_exit(0);
		}
		int status = 0;
		while (waitpid(pid, &status, 0) < 0 && errno == EINTR)
			;
		if (WIFEXITED(status) && WEXITSTATUS(status) == 0)
			break;
		if (WIFEXITED(status) && WEXITSTATUS(status) == 71) {
			fprintf(stderr, "seccomp filter not available\n");
			return 4;
		}
		/* the child died on case *progress: mark it and go on after it */
		size_t done = (size_t)*progress;
		if (done >= n)
			break;
		memset(&out[done], 0, sizeof out[done]);
		out[done].outcome = 250;
		out[done].si_code = (uint32_t)status;
		*progress = done + 1;
		start = done + 1;
	}
	msync(outmap, n * sizeof(struct case_out), MS_SYNC);
	return 0;
}
