"""Scratch overlay: copy of /repo/miasm (working tree) + freshly compiled C
extensions (plain or ASan+UBSan), a `cc` shim for the GCC jitter, env for workers.

The stale, git-ignored *.so files in /repo/miasm/jitter are never used."""
import glob
import os
import shutil
import subprocess
import sysconfig
from concurrent.futures import ThreadPoolExecutor


class BuildError(Exception):
    pass


COMMON = ["JitCore.c", "vm_mngr.c", "vm_mngr_py.c", "op_semantics.c", "bn.c"]
NO_OPSEM = {"mep"}     # as in setup.py

CC_SHIM = r'''#!/bin/sh
# harness-only shim for the GCC jitter's per-block compile
unset LD_PRELOAD
args=""
for a in "$@"; do
  case "$a" in
    -O3) args="$args -O1" ;;
    *) args="$args $a" ;;
  esac
done
exec /usr/bin/gcc $args $VERIF_JIT_CFLAGS
'''


def _run(cmd, cwd=None):
    env = dict(os.environ)
    env.pop("LD_PRELOAD", None)
    r = subprocess.run(cmd, cwd=cwd, stdout=subprocess.PIPE, stderr=subprocess.STDOUT, env=env)
    if r.returncode != 0:
        raise BuildError("%s\n%s" % (" ".join(cmd), r.stdout.decode(errors="replace")[-4000:]))


def build(scratch, repo, asan=False):
    ov = os.path.join(scratch, "overlay")
    if os.path.exists(ov):
        shutil.rmtree(ov)
    os.makedirs(ov)
    dst = os.path.join(ov, "miasm")
    shutil.copytree(os.path.join(repo, "miasm"), dst,
                    ignore=shutil.ignore_patterns("*.so", "__pycache__", "*.pyc", "*.o"))
    jit = os.path.join(dst, "jitter")
    ext = sysconfig.get_config_var("EXT_SUFFIX")
    inc = sysconfig.get_paths()["include"]
    # python used to run this is /venv/bin/python (same as the workers)
    cflags = ["-O1" if asan else "-O2", "-DNDEBUG", "-fPIC", "-fwrapv", "-w", "-I" + inc, "-I" + jit]
    ldflags = ["-shared"]
    if asan:
        cflags += ["-g", "-fno-omit-frame-pointer", "-fsanitize=address,undefined",
                   "-fno-sanitize=alignment", "-fno-sanitize-recover=undefined"]
        ldflags += ["-fsanitize=address,undefined"]
    if os.environ.get("MIASM_VERIF"):
        cflags.append("-DMIASM_VERIF")
    objdir = os.path.join(ov, "obj")
    os.makedirs(objdir)
    arch_srcs = sorted(glob.glob(os.path.join(jit, "arch", "JitCore_*.c")))
    srcs = [os.path.join(jit, f) for f in COMMON] + arch_srcs + [os.path.join(jit, "Jitgcc.c")]

    def compile_one(src):
        obj = os.path.join(objdir, os.path.basename(src)[:-2] + ".o")
        _run(["gcc", "-c", src, "-o", obj] + cflags)
        return obj

    with ThreadPoolExecutor(16) as ex:
        objs = dict(zip(srcs, ex.map(compile_one, srcs)))

    def o(name):
        return objs[os.path.join(jit, name)]

    links = [(os.path.join(jit, "VmMngr" + ext), [o("vm_mngr.c"), o("vm_mngr_py.c"), o("bn.c")]),
             (os.path.join(jit, "Jitgcc" + ext), [o("Jitgcc.c"), o("bn.c")])]
    for src in arch_srcs:
        name = os.path.basename(src)[:-2]
        arch = name[len("JitCore_"):]
        parts = [o(f) for f in COMMON if not (f == "op_semantics.c" and arch in NO_OPSEM)] + [objs[src]]
        links.append((os.path.join(jit, "arch", name + ext), parts))

    def link_one(item):
        out, parts = item
        _run(["gcc"] + ldflags + parts + ["-o", out])

    with ThreadPoolExecutor(16) as ex:
        list(ex.map(link_one, links))
    shutil.rmtree(objdir, ignore_errors=True)

    bindir = os.path.join(ov, "bin")
    os.makedirs(bindir)
    shim = os.path.join(bindir, "cc")
    with open(shim, "w") as fd:
        fd.write(CC_SHIM)
    os.chmod(shim, 0o755)
    env = {"PATH": bindir + os.pathsep + os.environ.get("PATH", "/usr/bin:/bin"),
           "VERIF_OVERLAY": ov, "VERIF_JIT_CFLAGS": ""}
    info = dict(path=ov, env=env, asan=asan)
    if asan:
        r = subprocess.run(["gcc", "-print-file-name=libasan.so"], stdout=subprocess.PIPE)
        info["libasan"] = os.path.realpath(r.stdout.decode().strip())
        env["VERIF_JIT_CFLAGS"] = "-fsanitize=undefined -fno-sanitize=alignment -fno-sanitize-recover=undefined"
    return info
