"""C41: generator of small x86-32/x86-64 programs with input-dependent branches.

Programs are emitted as miasm assembler text (assembled at check time with
miasm's own assembler).  Inputs are either whole registers ("reg"), a byte
buffer addressed through a concrete pointer register ("mem") or arguments on
the stack ("stack").  Memory is addressed through concrete pointers with constant
displacements, except for lookups in small constant tables (own data page)
whose index is input-derived and masked to the table size; every loop has a
trip count <= 4.

The generator keeps a rough syntactic taint (which register families may hold
input-derived data) so that most conditions really depend on the input.
"""

CONDS = ["O", "NO", "B", "AE", "Z", "NZ", "BE", "A", "S", "NS", "PE", "NP", "L", "GE", "LE", "G"]

CODE_ADDR = 0x40000
BUF_ADDR = 0x20000
SCRATCH_ADDR = 0x30000
SCRATCH_LEN = 0x40
TABLE_ADDR = 0x50000        # constant lookup tables (never written, never symbolized)
TABLE_LEN = 0x40

FAMS32 = ["A", "B", "C", "D", "SI", "DI"]
FAMS64 = FAMS32 + ["R8", "R9", "R10"]
BYTE_FAMS = ["A", "B", "C", "D"]


def regname(fam, size, high=False):
    if fam in ("A", "B", "C", "D"):
        if size == 8:
            return fam + ("H" if high else "L")
        if size == 16:
            return fam + "X"
        if size == 32:
            return "E" + fam + "X"
        return "R" + fam + "X"
    if fam in ("SI", "DI", "BP", "SP"):
        assert size >= 16
        return {16: "", 32: "E", 64: "R"}[size] + fam
    assert size >= 16 or True
    return fam + {8: "B", 16: "W", 32: "D", 64: ""}[size]


PTRNAME = {8: "BYTE", 16: "WORD", 32: "DWORD", 64: "QWORD"}


def boundary(rng, size):
    m = (1 << size) - 1
    return rng.choice([0, 1, 2, m, m - 1, 1 << (size - 1), (1 << (size - 1)) - 1, (1 << (size - 1)) + 1,
                       0x7f & m, 0x80 & m, 0xff & m, 0x100 & m, rng.getrandbits(size), rng.getrandbits(size),
                       rng.getrandbits(size) & 0xff, rng.getrandbits(size) & 0xffff])


class ProgGen(object):
    def __init__(self, rng, bits, mode, bufwrite=False, max_branches=6):
        self.rng = rng
        self.bits = bits
        self.mode = mode
        self.bufwrite = bufwrite
        self.lines = []
        self.nlabel = 0
        self.fams = list(FAMS32 if bits == 32 else FAMS64)
        self.reserved = set()
        if mode == "mem":
            self.reserved.add("SI")
        self.taint = set()
        self.scratch_taint = False
        self.branches_left = max_branches
        self.loops_left = 2
        self.kinds = {}      # statement/condition kinds used (for the evidence)
        self.buf_len = 0
        self.nargs = 0
        self.sym_fams = []
        self.buf_written = set()
        self.table = [rng.getrandbits(8) for _ in range(TABLE_LEN)]
        self.table_rate = 0.25

    # ---- helpers
    def k(self, name):
        self.kinds[name] = self.kinds.get(name, 0) + 1

    def label(self):
        self.nlabel += 1
        return "lbl%d" % self.nlabel

    def emit(self, line):
        self.lines.append("    " + line)

    def emit_label(self, name):
        if self.lines and self.lines[-1].endswith(":"):
            self.emit("NOP")       # two labels on one address are refused by the assembler
        self.lines.append("%s:" % name)

    def op_size(self):
        r = self.rng.random()
        if self.bits == 32:
            return 32 if r < 0.7 else (8 if r < 0.9 else 16)
        return 64 if r < 0.45 else (32 if r < 0.8 else (8 if r < 0.95 else 16))

    def avail(self, size):
        fams = [f for f in self.fams if f not in self.reserved]
        if size == 8:
            fams = [f for f in fams if f in BYTE_FAMS]
        return fams

    def pick_dst(self, size):
        fams = self.avail(size)
        t = [f for f in fams if f in self.taint]
        if t and self.rng.random() < 0.6:
            return self.rng.choice(t)
        return self.rng.choice(fams)

    def pick_src(self, size, want_taint=0.75, exclude=()):
        fams = [f for f in self.fams if f not in exclude and not (self.mode == "mem" and f == "SI")]
        if size == 8:
            fams = [f for f in fams if f in BYTE_FAMS]
        t = [f for f in fams if f in self.taint]
        if t and self.rng.random() < want_taint:
            return self.rng.choice(t)
        return self.rng.choice(fams)

    def rn(self, fam, size):
        high = False
        if size == 8 and self.bits == 32 and self.rng.random() < 0.25:
            high = True
        return regname(fam, size, high)

    def imm(self, size):
        v = boundary(self.rng, min(size, 32))
        if size == 64 and v > 0x7fffffff:
            v &= 0x7fffffff
        return v

    def set_taint(self, dst, tainted):
        if tainted:
            self.taint.add(dst)
        # a partial or full overwrite with clean data: keep taint unless full width
        # (conservative: never drop the last tainted family)

    def drop_taint(self, dst):
        if dst in self.taint and len(self.taint) > 1:
            self.taint.discard(dst)

    def ptr(self):
        return regname("SI", self.bits)

    def sp(self):
        return regname("SP", self.bits)

    def bp(self):
        return regname("BP", self.bits)

    def buf_off(self, size):
        """offset of a @size-bit access inside the buffer; after a store to the buffer, mostly
        an offset that overlaps a stored byte (read-after-write through the symbolized area)"""
        hi = self.buf_len - size // 8
        if self.buf_written and self.rng.random() < 0.7:
            w = self.rng.choice(sorted(self.buf_written))
            lo = max(0, w - size // 8 + 1)
            return self.rng.randrange(lo, min(w, hi) + 1) if lo <= min(w, hi) else min(w, hi)
        return self.rng.randrange(0, hi + 1)

    # ---- input prologue
    def prologue(self):
        rng = self.rng
        if self.mode == "reg":
            n = rng.choice([1, 2, 2, 3])
            self.sym_fams = rng.sample(self.avail(32), n)
            self.taint.update(self.sym_fams)
        elif self.mode == "mem":
            self.buf_len = rng.choice([4, 5, 6, 8])
            nloads = rng.choice([2, 3, 4])
            fams = rng.sample(self.avail(8) + [f for f in self.avail(32) if f not in BYTE_FAMS][:1], min(nloads, 4))
            for fam in fams:
                self.buf_load(fam)
        else:
            self.nargs = rng.choice([1, 2])
            w = self.bits // 8
            fams = rng.sample(self.avail(32), self.nargs)
            for i, fam in enumerate(fams):
                self.emit("MOV %s, %s PTR [%s+0x%x]" % (regname(fam, self.bits), PTRNAME[self.bits],
                                                       self.sp(), w * (i + 1)))
                self.taint.add(fam)

    def buf_load(self, fam):
        rng = self.rng
        sizes = [8, 8, 16, 32] + ([64] if self.bits == 64 and self.buf_len >= 8 else [])
        size = rng.choice(sizes)
        if size // 8 > self.buf_len:
            size = 8
        off = self.buf_off(size)
        mem = "%s PTR [%s+0x%x]" % (PTRNAME[size], self.ptr(), off)
        if size in (8, 16) and (fam not in BYTE_FAMS or rng.random() < 0.8):
            op = rng.choice(["MOVZX", "MOVZX", "MOVSX"])
            dsize = 32 if (self.bits == 32 or rng.random() < 0.6) else 64
            self.emit("%s %s, %s" % (op, regname(fam, dsize), mem))
            self.k("load:" + op.lower())
        else:
            if size == 8 and fam not in BYTE_FAMS:
                size = 32 if self.buf_len >= 4 else 16
                off = self.buf_off(size)
                mem = "%s PTR [%s+0x%x]" % (PTRNAME[size], self.ptr(), off)
            self.emit("MOV %s, %s" % (regname(fam, size), mem))
            self.k("load:mov%d" % size)
        self.taint.add(fam)

    # ---- straight-line statements
    def stmt(self):
        rng = self.rng
        kinds = [("alu", 10), ("alu_imm", 8), ("mov", 3), ("unary", 4), ("shift_imm", 6), ("shift_cl", 3),
                 ("ext", 4), ("lea", 3), ("imul", 3), ("bswap", 1), ("xchg", 1), ("setcc", 2), ("cmov", 3),
                 ("pushpop", 2), ("spill", 3), ("reload", 2), ("div", 1), ("mul", 1), ("shld", 1),
                 ("adc", 2), ("cdq", 1), ("bsf", 1), ("carryflag", 1), ("rcl", 1)]
        if self.mode == "mem":
            kinds.append(("bufread", 5))
            if self.bufwrite:
                kinds.append(("bufwrite", 7))
        total = sum(w for _, w in kinds)
        r = rng.random() * total
        for name, w in kinds:
            r -= w
            if r < 0:
                break
        getattr(self, "s_" + name)()

    def s_alu(self):
        size = self.op_size()
        d = self.pick_dst(size)
        s = self.pick_src(size)
        op = self.rng.choice(["ADD", "SUB", "XOR", "AND", "OR", "ADD", "SUB", "XOR"])
        if d == s and op in ("SUB", "XOR") and len(self.taint) <= 1:
            op = "ADD"
        self.emit("%s %s, %s" % (op, self.rn(d, size), self.rn(s, size)))
        self.k("alu:" + op.lower())
        self.set_taint(d, s in self.taint)

    def s_alu_imm(self):
        size = self.op_size()
        d = self.pick_dst(size)
        op = self.rng.choice(["ADD", "SUB", "XOR", "AND", "OR"])
        v = self.imm(size)
        if op == "AND" and v == 0:
            v = 0xf0
        self.emit("%s %s, 0x%x" % (op, self.rn(d, size), v))
        self.k("alu_imm:" + op.lower())

    def s_mov(self):
        size = self.op_size()
        d = self.pick_dst(size)
        if self.rng.random() < 0.7:
            s = self.pick_src(size)
            if s in self.taint or len(self.taint) > 1 or d not in self.taint:
                self.emit("MOV %s, %s" % (self.rn(d, size), self.rn(s, size)))
                self.set_taint(d, s in self.taint)
                if s not in self.taint and size >= 32:
                    self.drop_taint(d)
                self.k("mov:rr")
                return
        if d in self.taint and len(self.taint) <= 1:
            return
        v = self.imm(size) if size < 64 or self.rng.random() < 0.5 else self.rng.getrandbits(64)
        self.emit("MOV %s, 0x%x" % (self.rn(d, size), v))
        if size >= 32:
            self.drop_taint(d)
        self.k("mov:ri")

    def s_unary(self):
        size = self.op_size()
        d = self.pick_dst(size)
        op = self.rng.choice(["NEG", "NOT", "INC", "DEC"])
        self.emit("%s %s" % (op, self.rn(d, size)))
        self.k("unary:" + op.lower())

    def s_shift_imm(self):
        size = self.op_size()
        d = self.pick_dst(size)
        op = self.rng.choice(["SHL", "SHR", "SAR", "ROL", "ROR"])
        n = self.rng.choice([1, 1, 2, 3, 4, 7, 8, size - 1, self.rng.randrange(1, size)])
        self.emit("%s %s, 0x%x" % (op, self.rn(d, size), n))
        self.k("shift_imm:" + op.lower())

    def s_shift_cl(self):
        size = self.op_size()
        fams = [f for f in self.avail(size) if f != "C"]
        if not fams:
            return
        t = [f for f in fams if f in self.taint]
        d = self.rng.choice(t) if t and self.rng.random() < 0.6 else self.rng.choice(fams)
        op = self.rng.choice(["SHL", "SHR", "SAR", "ROL", "ROR"])
        if "C" not in self.reserved and self.rng.random() < 0.5:
            s = self.pick_src(8, exclude=("C",))
            self.emit("MOV CL, %s" % regname(s, 8))
            self.set_taint("C", s in self.taint)
            if self.rng.random() < 0.5:
                self.emit("AND CL, 0x%x" % self.rng.choice([3, 7, 0xf, 0x1f]))
        self.emit("%s %s, CL" % (op, self.rn(d, size)))
        self.k("shift_cl:" + op.lower())
        self.set_taint(d, "C" in self.taint)

    def s_ext(self):
        ssize = self.rng.choice([8, 16])
        s = self.pick_src(ssize)
        dsize = 32 if self.bits == 32 or self.rng.random() < 0.5 else 64
        if self.rng.random() < 0.15:
            dsize = 16 if ssize == 8 else dsize
        d = self.pick_dst(dsize)
        op = self.rng.choice(["MOVZX", "MOVSX"])
        high = ssize == 8 and self.bits == 32 and self.rng.random() < 0.3
        self.emit("%s %s, %s" % (op, regname(d, dsize), regname(s, ssize, high)))
        self.k("ext:" + op.lower())
        if s in self.taint:
            self.taint.add(d)
        elif d != s:
            self.drop_taint(d)

    def s_lea(self):
        size = self.bits if self.rng.random() < 0.7 else 32
        d = self.pick_dst(size)
        b = self.pick_src(size)
        i = self.pick_src(size, exclude=(b,))     # base == index: miasm's assembler emits a malformed
        asz = self.bits                             # disp8 form with a 4-byte displacement (C15's business)
        sc = self.rng.choice([1, 2, 4, 8])
        disp = self.rng.choice([0, 1, 4, 0x10, 0x7f, 0x1234, 0x7fffffff])
        expr = "%s+%s*0x%x" % (regname(b, asz), regname(i, asz), sc)
        if disp:
            expr += "+0x%x" % disp
        self.emit("LEA %s, %s PTR [%s]" % (regname(d, size), PTRNAME[size], expr))
        self.k("lea")
        if b in self.taint or i in self.taint:
            self.taint.add(d)
        else:
            self.drop_taint(d)

    def s_imul(self):
        size = self.rng.choice([32, 32, 16] if self.bits == 32 else [64, 32, 32])
        d = self.pick_dst(size)
        s = self.pick_src(size)
        if self.rng.random() < 0.5:
            self.emit("IMUL %s, %s" % (regname(d, size), regname(s, size)))
            self.set_taint(d, s in self.taint)
            self.k("imul:rr")
        else:
            v = self.rng.choice([3, 5, 7, 0x11, 0x101, 0x10001, 0x7fff, self.rng.getrandbits(15) | 1])
            self.emit("IMUL %s, %s, 0x%x" % (regname(d, size), regname(s, size), v))
            if s in self.taint:
                self.taint.add(d)
            else:
                self.drop_taint(d)
            self.k("imul:rri")

    def s_bswap(self):
        size = 32 if self.bits == 32 or self.rng.random() < 0.5 else 64
        d = self.pick_dst(size)
        self.emit("BSWAP %s" % regname(d, size))
        self.k("bswap")

    def s_xchg(self):
        size = self.op_size()
        d = self.pick_dst(size)
        s = self.pick_dst(size)
        if d == s:
            return
        self.emit("XCHG %s, %s" % (regname(d, size), regname(s, size)))
        self.k("xchg")
        if d in self.taint or s in self.taint:
            self.taint.update((d, s))

    def flags_setter(self):
        """CMP/TEST whose flags feed SETcc/CMOVcc; -> tainted?"""
        size = self.op_size()
        a = self.pick_src(size)
        if self.rng.random() < 0.5:
            b = self.pick_src(size)
            self.emit("%s %s, %s" % (self.rng.choice(["CMP", "CMP", "TEST"]), self.rn(a, size), self.rn(b, size)))
            return a in self.taint or b in self.taint
        self.emit("%s %s, 0x%x" % (self.rng.choice(["CMP", "CMP", "TEST"]), self.rn(a, size), self.imm(size)))
        return a in self.taint

    def s_setcc(self):
        t = self.flags_setter()
        d = self.pick_dst(8)
        cc = self.rng.choice(CONDS)
        self.emit("SET%s %s" % (cc, regname(d, 8)))
        self.k("setcc:" + cc.lower())
        self.set_taint(d, t)

    def s_cmov(self):
        t = self.flags_setter()
        size = self.rng.choice([32, 32, 16] if self.bits == 32 else [64, 32, 16])
        d = self.pick_dst(size)
        s = self.pick_src(size)
        cc = self.rng.choice(CONDS)
        self.emit("CMOV%s %s, %s" % (cc, regname(d, size), regname(s, size)))
        self.k("cmov:" + cc.lower())
        self.set_taint(d, t or s in self.taint)

    def s_pushpop(self):
        s = self.pick_src(self.bits)
        d = self.pick_dst(self.bits)
        self.emit("PUSH %s" % regname(s, self.bits))
        self.emit("POP %s" % regname(d, self.bits))
        self.k("pushpop")
        if s in self.taint:
            self.taint.add(d)
        elif d != s:
            self.drop_taint(d)

    def s_spill(self):
        size = self.op_size()
        s = self.pick_src(size)
        off = self.rng.randrange(0, 16)
        self.emit("MOV %s PTR [%s+0x%x], %s" % (PTRNAME[size], self.bp(), off, self.rn(s, size)))
        self.k("spill%d" % size)
        if s in self.taint:
            self.scratch_taint = True

    def s_reload(self):
        size = self.op_size()
        d = self.pick_dst(size)
        off = self.rng.randrange(0, 16)
        if not self.scratch_taint and d in self.taint and len(self.taint) <= 1:
            return
        op = self.rng.choice(["MOV", "MOV", "ADD", "XOR"])
        self.emit("%s %s, %s PTR [%s+0x%x]" % (op, self.rn(d, size), PTRNAME[size], self.bp(), off))
        self.k("reload:" + op.lower())
        if self.scratch_taint:
            self.taint.add(d)

    def s_bufread(self):
        fams = [f for f in self.avail(32)]
        self.buf_load(self.rng.choice(fams))

    def s_bufwrite(self):
        size = self.rng.choice([8, 8, 16, 32])
        if size // 8 > self.buf_len:
            size = 8
        off = self.rng.randrange(0, self.buf_len - size // 8 + 1)
        mem = "%s PTR [%s+0x%x]" % (PTRNAME[size], self.ptr(), off)
        self.buf_written.update(range(off, off + size // 8))
        r = self.rng.random()
        if r < 0.4:
            s = self.pick_src(size)
            self.emit("MOV %s, %s" % (mem, self.rn(s, size)))
            self.k("bufwrite:mov")
        elif r < 0.7:
            op = self.rng.choice(["XOR", "ADD", "SUB", "AND", "OR"])
            self.emit("%s %s, 0x%x" % (op, mem, self.imm(size) | 1))
            self.k("bufwrite:rmw_imm")
        else:
            s = self.pick_src(size)
            op = self.rng.choice(["XOR", "ADD", "SUB"])
            self.emit("%s %s, %s" % (op, mem, self.rn(s, size)))
            self.k("bufwrite:rmw_reg")
        if self.branches_left > 0 and self.rng.random() < 0.5:
            # read the stored bytes back and branch on them
            self.branches_left -= 1
            skip = self.label()
            self.cond(skip, force_mem=True)
            self.s_alu_imm()
            self.emit_label(skip)
            self.k("struct:readback_if")

    def s_div(self):
        if "A" in self.reserved or "D" in self.reserved:
            return
        size = 32 if self.bits == 32 or self.rng.random() < 0.6 else 64
        fams = [f for f in self.avail(size) if f not in ("A", "D")]
        s = self.rng.choice(fams)
        self.emit("OR %s, 0x1" % regname(s, size))
        self.emit("XOR EDX, EDX")
        self.emit("DIV %s" % regname(s, size))
        self.k("div")
        if s in self.taint or "A" in self.taint:
            self.taint.update(("A", "D"))

    def s_mul(self):
        if "A" in self.reserved or "D" in self.reserved:
            return
        size = 32 if self.bits == 32 or self.rng.random() < 0.6 else 64
        s = self.pick_src(size)
        self.emit("%s %s" % (self.rng.choice(["MUL", "IMUL"]), regname(s, size)))
        self.k("mul1")
        if s in self.taint or "A" in self.taint:
            self.taint.update(("A", "D"))

    def s_shld(self):
        size = 32 if self.bits == 32 or self.rng.random() < 0.5 else 64
        d = self.pick_dst(size)
        s = self.pick_src(size)
        op = self.rng.choice(["SHLD", "SHRD"])
        self.emit("%s %s, %s, 0x%x" % (op, regname(d, size), regname(s, size), self.rng.randrange(1, size)))
        self.k(op.lower())
        self.set_taint(d, s in self.taint)

    def s_adc(self):
        size = self.op_size()
        d = self.pick_dst(size)
        a = self.pick_src(size)
        b = self.pick_src(size)
        self.emit("%s %s, %s" % (self.rng.choice(["ADD", "SUB", "CMP"]), self.rn(a, size), self.rn(b, size)))
        op = self.rng.choice(["ADC", "SBB"])
        if self.rng.random() < 0.5:
            self.emit("%s %s, %s" % (op, self.rn(d, size), self.rn(self.pick_src(size), size)))
        else:
            self.emit("%s %s, 0x%x" % (op, self.rn(d, size), self.imm(size) & 0x7f))
        self.k(op.lower())
        self.set_taint(d, a in self.taint or b in self.taint)

    def s_cdq(self):
        if "A" in self.reserved or "D" in self.reserved:
            return
        if self.bits == 64 and self.rng.random() < 0.3:
            self.emit(self.rng.choice(["CDQE", "CQO"]))
        else:
            self.emit(self.rng.choice(["CDQ", "CWDE", "CBW"]))
        self.k("cdq")
        if "A" in self.taint:
            self.taint.add("D")

    def s_bsf(self):
        size = 32 if self.bits == 32 or self.rng.random() < 0.5 else 64
        d = self.pick_dst(size)
        s = self.pick_src(size)
        op = self.rng.choice(["BSF", "BSR"])
        self.emit("%s %s, %s" % (op, regname(d, size), regname(s, size)))
        self.k(op.lower())
        self.set_taint(d, s in self.taint)

    def s_carryflag(self):
        self.emit(self.rng.choice(["STC", "CLC", "CMC"]))
        self.k("carryflag")

    def s_rcl(self):
        size = self.op_size()
        d = self.pick_dst(size)
        self.emit("%s %s, 0x1" % (self.rng.choice(["RCL", "RCR"]), self.rn(d, size)))
        self.k("rcl")

    # ---- conditions
    def cond(self, target, allow_parity=True, force_mem=False):
        """emit a flag-setting sequence and a conditional jump to @target"""
        rng = self.rng
        r = rng.random()
        ccs = CONDS if allow_parity else [c for c in CONDS if c not in ("PE", "NP")]
        if not force_mem and self.taint and rng.random() < self.table_rate:
            self.cond_table(target)
            return
        if self.mode == "mem" and (force_mem or r < (0.3 if self.buf_written else 0.15)):
            size = rng.choice([8, 8, 16, 32])
            if size // 8 > self.buf_len:
                size = 8
            off = self.buf_off(size)
            mem = "%s PTR [%s+0x%x]" % (PTRNAME[size], self.ptr(), off)
            op = rng.choice(["CMP", "CMP", "TEST"])
            self.emit("%s %s, 0x%x" % (op, mem, self.imm(size) if op == "CMP" else (self.imm(size) | 1)))
            cc = rng.choice(ccs if op == "CMP" else ["Z", "NZ", "S", "NS", "PE", "NP"])
            self.k("cond:mem_" + op.lower())
        elif r < 0.40:
            size = self.op_size()
            a = self.pick_src(size, 0.95)
            self.emit("CMP %s, 0x%x" % (self.rn(a, size), self.imm(size)))
            cc = rng.choice(ccs)
            self.k("cond:cmp_ri")
        elif r < 0.55:
            size = self.op_size()
            a = self.pick_src(size, 0.95)
            b = self.pick_src(size, 0.5, exclude=(a,))
            self.emit("CMP %s, %s" % (self.rn(a, size), self.rn(b, size)))
            cc = rng.choice(ccs)
            self.k("cond:cmp_rr")
        elif r < 0.68:
            size = self.op_size()
            a = self.pick_src(size, 0.95)
            if rng.random() < 0.5:
                self.emit("TEST %s, 0x%x" % (self.rn(a, size), self.imm(size) | rng.choice([1, 0x80, 0x10])))
            else:
                b = a if rng.random() < 0.6 else self.pick_src(size, 0.5)
                self.emit("TEST %s, %s" % (self.rn(a, size), self.rn(b, size)))
            cc = rng.choice(["Z", "NZ", "S", "NS", "PE", "NP", "LE", "G", "BE", "A"])
            self.k("cond:test")
        elif r < 0.86:
            size = self.op_size()
            fams = [f for f in self.avail(size) if f in self.taint] or self.avail(size)
            d = rng.choice(fams)
            op = rng.choice(["ADD", "SUB", "AND", "XOR", "OR", "ADD", "SUB"])
            if rng.random() < 0.5:
                s = self.pick_src(size, 0.5)
                if s == d and op in ("SUB", "XOR"):
                    op = "ADD"
                self.emit("%s %s, %s" % (op, self.rn(d, size), self.rn(s, size)))
                self.set_taint(d, s in self.taint)
            else:
                self.emit("%s %s, 0x%x" % (op, self.rn(d, size), self.imm(size) | 1))
            cc = rng.choice(ccs if op in ("ADD", "SUB") else ["Z", "NZ", "S", "NS", "PE", "NP", "LE", "G"])
            self.k("cond:alu_flags_" + op.lower())
        elif r < 0.93:
            size = self.op_size()
            fams = [f for f in self.avail(size) if f in self.taint] or self.avail(size)
            d = rng.choice(fams)
            op = rng.choice(["SHL", "SHR", "SAR", "INC", "DEC", "NEG"])
            if op in ("INC", "DEC", "NEG"):
                self.emit("%s %s" % (op, self.rn(d, size)))
                cc = rng.choice(["Z", "NZ", "S", "NS", "O", "NO", "L", "GE"] + (["B", "AE"] if op == "NEG" else []))
            else:
                self.emit("%s %s, 0x%x" % (op, self.rn(d, size), rng.choice([1, 1, 2, 3])))
                cc = rng.choice(["B", "AE", "Z", "NZ", "S", "NS"])
            self.k("cond:shift_flags_" + op.lower())
        else:
            size = 32 if self.bits == 32 or rng.random() < 0.5 else 64
            a = self.pick_src(size, 0.95)
            self.emit("BT %s, 0x%x" % (regname(a, size), rng.randrange(0, size)))
            cc = rng.choice(["B", "AE"])
            self.k("cond:bt")
        self.emit("J%s %s" % (cc, target))
        self.k("jcc:" + cc.lower())

    def cond_table(self, target):
        """branch on a value looked up in a constant table through an input-derived, masked index:
        the address of the deciding read is symbolic.  The compared constant sits in the last / first /
        a middle cell of the reachable range, or nowhere in it (then no input may be produced)."""
        rng = self.rng
        dword = rng.random() < 0.3
        n = 4 if dword else rng.choice([4, 8, 16, 16])
        esz = 4 if dword else 1
        toff = rng.choice([o for o in (0, 16, 32, 48, 5, 21) if o + n * esz <= TABLE_LEN])
        src = self.pick_src(self.bits, 0.98)
        fams = [f for f in self.avail(self.bits)]
        idx = rng.choice(fams)
        val = rng.choice(fams)
        iname = regname(idx, self.bits)
        if idx != src:
            if rng.random() < 0.3 and src in BYTE_FAMS:
                self.emit("MOVZX %s, %s" % (regname(idx, 32), regname(src, 8)))
            else:
                self.emit("MOV %s, %s" % (iname, regname(src, self.bits)))
        r = rng.random()
        if r < 0.2:
            self.emit("SHR %s, 0x%x" % (iname, rng.choice([1, 4, 8])))
        elif r < 0.4:
            self.emit("ADD %s, 0x%x" % (iname, rng.choice([1, 3, 0x7f])))
        self.emit("AND %s, 0x%x" % (iname, n - 1))
        base = TABLE_ADDR + toff
        if dword:
            self.emit("MOV %s, DWORD PTR [%s*0x4+0x%x]" % (regname(val, 32), iname, base))
            cells = [sum(self.table[toff + 4 * i + j] << (8 * j) for j in range(4)) for i in range(n)]
            width = 32
        else:
            op = rng.choice(["MOVZX", "MOVZX", "MOVSX"])
            self.emit("%s %s, BYTE PTR [%s+0x%x]" % (op, regname(val, 32), iname, base))
            cells = [self.table[toff + i] for i in range(n)]
            if op == "MOVSX":
                cells = [c | (0xffffff00 if c & 0x80 else 0) for c in cells]
            width = 8
        self.taint.update((idx, val))
        where = rng.choice(["last", "last", "first", "first", "middle", "absent", "absent"])
        if where == "last":
            tgt = cells[-1]
        elif where == "first":
            tgt = cells[0]
        elif where == "middle":
            tgt = cells[rng.randrange(1, n - 1)]
        else:
            tgt = rng.getrandbits(32 if dword else 8)
            while tgt in cells:
                tgt = rng.getrandbits(32 if dword else 8)
        # how many cells hold the value (a value only present in one cell pins the index)
        self.emit("CMP %s, 0x%x" % (regname(val, 32), tgt))
        cc = rng.choice(["Z", "NZ", "Z", "NZ", "B", "AE"]) if where != "absent" else rng.choice(["Z", "NZ"])
        self.emit("J%s %s" % (cc, target))
        self.k("cond:table_%s_%s" % ("dword" if dword else "byte", where))
        self.k("jcc:" + cc.lower())

    # ---- structure
    def seq(self, depth, in_loop=False):
        rng = self.rng
        for _ in range(rng.choice([1, 1, 2, 3])):
            self.stmt()
        if self.bufwrite and self.mode == "mem" and depth == 0 and not self.buf_written:
            self.s_bufwrite()       # a program of this class stores into its input buffer at least once
        nstruct = rng.choice([1, 1, 2]) if depth == 0 else rng.choice([0, 1, 1])
        for _ in range(nstruct):
            if self.branches_left <= 0:
                break
            if (not in_loop) and self.loops_left > 0 and rng.random() < 0.3:
                self.loop(depth)
            elif depth < 3:
                self.ifelse(depth, in_loop)
            for _ in range(rng.choice([0, 1, 2])):
                self.stmt()

    def ifelse(self, depth, in_loop):
        rng = self.rng
        self.branches_left -= 1
        l_else = self.label()
        self.cond(l_else)
        taint0 = set(self.taint)
        if rng.random() < 0.7:
            l_end = self.label()
            self.seq(depth + 1, in_loop)
            self.emit("JMP %s" % l_end)
            t_then = set(self.taint)
            self.taint = set(taint0)
            self.emit_label(l_else)
            self.seq(depth + 1, in_loop)
            self.emit_label(l_end)
            self.taint |= t_then
            self.k("struct:ifelse")
        else:
            self.seq(depth + 1, in_loop)
            self.emit_label(l_else)
            self.taint |= taint0
            self.k("struct:if")

    def loop(self, depth):
        rng = self.rng
        self.loops_left -= 1
        free = [f for f in self.avail(32) if f != "A"]
        use_loop_insn = rng.random() < 0.2 and "C" in free
        cnt = "C" if use_loop_insn else rng.choice(free)
        csize = self.bits if (use_loop_insn or rng.random() < 0.4) else 32
        cname = regname(cnt, csize)
        symbolic = rng.random() < 0.55
        if symbolic:
            others = [f for f in self.taint if f != cnt]
            if cnt not in self.taint and others:
                self.emit("MOV %s, %s" % (cname, regname(rng.choice(sorted(others)), csize)))
            self.emit("AND %s, 0x3" % cname)
            self.emit("INC %s" % cname)
            if cnt not in self.taint and not others:
                symbolic = False
            self.branches_left -= 2
        else:
            self.emit("MOV %s, 0x%x" % (cname, rng.choice([2, 3, 4])))
            self.branches_left -= 1
        was_tainted = cnt in self.taint
        self.taint.discard(cnt)
        if not self.taint:
            self.taint.add(cnt)
        self.reserved.add(cnt)
        top = self.label()
        self.emit_label(top)
        self.seq(depth + 2, in_loop=True)
        if use_loop_insn:
            self.emit("LOOP %s" % top)
            self.k("struct:loop_insn")
        else:
            r = rng.random()
            if r < 0.6:
                self.emit("DEC %s" % cname)
                self.emit("JNZ %s" % top)
            elif r < 0.8:
                self.emit("SUB %s, 0x1" % cname)
                self.emit("JA %s" % top)
            else:
                self.emit("SUB %s, 0x1" % cname)
                self.emit("JG %s" % top)
            self.k("struct:loop_sym" if symbolic else "struct:loop_conc")
        self.reserved.discard(cnt)
        if was_tainted or symbolic:
            self.taint.add(cnt)

    def build(self):
        self.lines.append("main:")
        self.prologue()
        self.seq(0)
        self.emit_label("end")
        self.emit("RET")
        self.emit_label("fin")
        self.emit("NOP")
        self.emit("NOP")
        return "\n".join(self.lines) + "\n"


def make_program(rng, bits, mode, bufwrite=False):
    """-> JSON-able description of one program and its initial concrete state"""
    g = ProgGen(rng, bits, mode, bufwrite=bufwrite)
    text = g.build()
    fams = FAMS32 if bits == 32 else FAMS64
    init_regs = {}
    for f in fams:
        init_regs[regname(f, bits)] = boundary(rng, bits) if rng.random() < 0.5 else rng.getrandbits(bits)
    if mode == "mem":
        init_regs[regname("SI", bits)] = BUF_ADDR
    init_regs[regname("BP", bits)] = SCRATCH_ADDR
    prog = dict(bits=bits, mode=mode, text=text, init_regs=init_regs,
                sym_regs=[regname(f, bits) for f in g.sym_fams], buf_len=g.buf_len, nargs=g.nargs,
                scratch=[rng.getrandbits(8) for _ in range(SCRATCH_LEN)], table=g.table, kinds=g.kinds,
                bufwrite=bool(bufwrite and any(k.startswith("bufwrite") for k in g.kinds)))
    # initial input
    inp = {}
    if mode == "reg":
        for r in prog["sym_regs"]:
            inp[r] = rng.choice([0, boundary(rng, bits), rng.getrandbits(bits)])
    elif mode == "mem":
        for i in range(g.buf_len):
            inp["b%d" % i] = rng.choice([0, rng.getrandbits(8), rng.getrandbits(8)])
    else:
        for i in range(g.nargs):
            inp["a%d" % i] = rng.choice([0, boundary(rng, bits), rng.getrandbits(bits)])
    prog["input0"] = inp
    return prog
