"""C04 helper: wrap TranslatorC output in C functions, compile them together
with op_semantics.c and bn.c of the working tree (gcc -O1, ASan+UBSan), run
the program and collect, per (case, valuation): the value, bytes written to
stdout, sanitizer reports, abnormal termination.

Harness-side code (memory lookup, value tables, result printing) uses no
function of the code under test except where the generated code does."""
import os
import re
import subprocess

from vf import exprgen
from vf.models import xlate_common as xc

NATIVE = (8, 16, 32, 64)
BIG_WIDTHS = (65, 80, 128, 256)
ID_WIDTHS = (1, 8, 16, 32, 64) + BIG_WIDTHS

PRELUDE = r'''
#define CASE_CPU_SECONDS 10
#include <stdio.h>
#include <stdlib.h>
#include <stdint.h>
#include <inttypes.h>
#include <string.h>
#include <unistd.h>
#include <sys/time.h>
#include "op_semantics.h"
#include "bn.h"

typedef struct JitCpu_s { int unused; } JitCpu;
static JitCpu jitcpu_obj;
static JitCpu *jitcpu = &jitcpu_obj;

struct cell { uint64_t addr; uint8_t val; };
static const struct cell *cur_cells;
static int cur_ncells;
static int mem_miss;
static int cur_id, cur_val;
static int resfd = 3;

/* the same total byte function as refsem.Env for every address refsem read
   (table emitted per case); other addresses are answered by a fixed mix and
   counted (the value is then wrong anyway or irrelevant) */
static uint8_t mem_byte(uint64_t a)
{
	int i;
	for (i = 0; i < cur_ncells; i++)
		if (cur_cells[i].addr == a)
			return cur_cells[i].val;
	mem_miss++;
	return (uint8_t)(0xA5 ^ a ^ (a >> 8) ^ (a >> 19));
}
static uint8_t MEM_LOOKUP_08(JitCpu *j, uint64_t addr) { (void)j; return mem_byte(addr); }
static uint16_t MEM_LOOKUP_16(JitCpu *j, uint64_t addr)
{ (void)j; return (uint16_t)(mem_byte(addr) | ((uint16_t)mem_byte(addr + 1) << 8)); }
static uint32_t MEM_LOOKUP_32(JitCpu *j, uint64_t addr)
{ int i; uint32_t v = 0; (void)j; for (i = 0; i < 4; i++) v |= (uint32_t)mem_byte(addr + i) << (8 * i); return v; }
static uint64_t MEM_LOOKUP_64(JitCpu *j, uint64_t addr)
{ int i; uint64_t v = 0; (void)j; for (i = 0; i < 8; i++) v |= (uint64_t)mem_byte(addr + i) << (8 * i); return v; }
static bn_t MEM_LOOKUP_INT_BN(JitCpu *j, int size, uint64_t addr)
{
	bn_t v; int i; (void)j;
	memset(&v, 0, sizeof(v));
	for (i = 0; i < size && i < BN_BIT_SIZE; i += 8)
		v.array[i / 32] |= (uint32_t)mem_byte(addr + i / 8) << (i % 32);
	return v;
}
static uint64_t bn_low64(bn_t a) { return (uint64_t)a.array[0] | ((uint64_t)a.array[1] << 32); }
static bn_t MEM_LOOKUP_BN_BN(JitCpu *j, int size, bn_t addr) { return MEM_LOOKUP_INT_BN(j, size, bn_low64(addr)); }
static uint64_t MEM_LOOKUP_BN_INT(JitCpu *j, int size, bn_t addr)
{
	uint64_t p = bn_low64(addr);
	switch (size) {
	case 8: return MEM_LOOKUP_08(j, p);
	case 16: return MEM_LOOKUP_16(j, p);
	case 32: return MEM_LOOKUP_32(j, p);
	case 64: return MEM_LOOKUP_64(j, p);
	}
	dprintf(2, "Error: bad READ size %d\n", size);
	exit(-1);
}

static void begin(int id, int val, const struct cell *cells, int ncells)
{
	/* CPU-time budget per evaluation (not wall clock): SIGPROF ends the process */
	struct itimerval it = {{0, 0}, {CASE_CPU_SECONDS, 0}};
	setitimer(ITIMER_PROF, &it, NULL);
	cur_cells = cells; cur_ncells = ncells; mem_miss = 0; cur_id = id; cur_val = val;
	dprintf(2, "@@ %d %d\n", id, val);
	dprintf(resfd, "B %d %d\n", id, val);
}
static long long out_off(void) { fflush(stdout); return (long long)lseek(1, 0, SEEK_CUR); }
static void end_nat(uint64_t r)
{
	dprintf(resfd, "R %d %d %016" PRIx64 " %d %lld\n", cur_id, cur_val, r, mem_miss, out_off());
}
static void end_bn(bn_t r)
{
	int i;
	dprintf(resfd, "R %d %d ", cur_id, cur_val);
	for (i = BN_ARRAY_SIZE - 1; i >= 0; i--)
		dprintf(resfd, "%08x", (unsigned)r.array[i]);
	dprintf(resfd, " %d %lld\n", mem_miss, out_off());
}
'''

MAIN = r'''
int main(int argc, char **argv)
{
	int start = argc > 1 ? atoi(argv[1]) : 0;
	int i;
	if (argc > 2)
		resfd = atoi(argv[2]);
	setvbuf(stdout, NULL, _IONBF, 0);
	for (i = start; i < (int)(sizeof(RUN) / sizeof(RUN[0])); i++)
		RUN[i]();
	dprintf(resfd, "END\n");
	return 0;
}
'''


def ctype(size):
    if size > 64:
        return "bn_t"
    n = 8
    while n < size:
        n *= 2
    return "uint%d_t" % n


def bn_init(v):
    return "{{%s}}" % ",".join("0x%xu" % ((v >> (32 * i)) & 0xffffffff) for i in range(8))


class Case(object):
    """one expression + its valuations (env, expected value, memory cells)"""

    def __init__(self, cid, expr, ctext, vals, tag=None):
        self.cid = cid
        self.expr = expr
        self.ctext = ctext
        self.vals = vals          # list of (env, want, cells{addr64: byte})
        self.tag = tag
        self.ids = xc.collect_ids(expr)

    def emit(self):
        e = self.expr
        nat = [i for i in self.ids if i.size <= 64]
        big = [i for i in self.ids if i.size > 64]
        cid = self.cid
        out = []
        rows = []
        brows = []
        for env, want, cells in self.vals:
            rows.append("{%s}" % (",".join("0x%xULL" % env.ident(i) for i in nat) or "0"))
            brows.append("{%s}" % (",".join(bn_init(env.ident(i)) for i in big) or bn_init(0)))
        out.append("static const uint64_t V_%d[%d][%d] = {%s};" % (cid, len(self.vals), max(1, len(nat)),
                                                                 ",".join(rows)))
        out.append("static const bn_t B_%d[%d][%d] = {%s};" % (cid, len(self.vals), max(1, len(big)),
                                                             ",".join(brows)))
        for j, (env, want, cells) in enumerate(self.vals):
            items = ",".join("{0x%xULL,%d}" % (a, b) for a, b in sorted(cells.items())) or "{0,0}"
            out.append("static const struct cell M_%d_%d[] = {%s};" % (cid, j, items))
        decl = []
        for k, i in enumerate(nat):
            decl.append("%s %s = (%s)v[%d];" % (ctype(i.size), i.name, ctype(i.size), k))
        for k, i in enumerate(big):
            decl.append("bn_t %s = bv[%d];" % (i.name, k))
        out.append('#line 1 "case_%d"' % cid)
        if e.size <= 64:
            mask = "0x%xULL" % ((1 << e.size) - 1)
            out.append("static __attribute__((noinline,noclone)) uint64_t f_%d(const uint64_t *v, const bn_t *bv) { (void)v; (void)bv; %s\n"
                       "return (uint64_t)((%s) & %s); }" % (cid, " ".join(decl), self.ctext, mask))
        else:
            out.append("static __attribute__((noinline,noclone)) bn_t f_%d(const uint64_t *v, const bn_t *bv) { (void)v; (void)bv; %s\n"
                       "return bignum_mask(%s, %d); }" % (cid, " ".join(decl), self.ctext, e.size))
        out.append('#line 1 "harness_%d"' % cid)
        body = []
        for j, (env, want, cells) in enumerate(self.vals):
            body.append("begin(%d, %d, M_%d_%d, %d); %s(f_%d(V_%d[%d], B_%d[%d]));" % (
                cid, j, cid, j, len(cells), "end_nat" if e.size <= 64 else "end_bn", cid, cid, j, cid, j))
        out.append("static void run_%d(void) { %s }" % (cid, " ".join(body)))
        return "\n".join(out) + "\n"


def emit_program(cases):
    parts = [PRELUDE]
    for c in cases:
        parts.append(c.emit())
    parts.append('#line 1 "harness_main"')
    parts.append("static void (*const RUN[])(void) = {%s};" % ",".join("run_%d" % c.cid for c in cases))
    parts.append(MAIN)
    return "\n".join(parts)


class Builder(object):
    """compiles op_semantics.c / bn.c of the tree once, then batches"""
    CFLAGS = ["-O1", "-g0", "-w", "-DNDEBUG", "-fsanitize=address,undefined", "-fno-sanitize=alignment",
              "-fno-omit-frame-pointer"]

    def __init__(self, workdir):
        self.workdir = workdir
        repo = os.environ.get("VERIF_REPO", "/repo")
        self.jitter = os.path.join(repo, "miasm", "jitter")
        self.env = dict(os.environ)
        self.env.pop("LD_PRELOAD", None)
        self.objs = []
        for name in ("op_semantics.c", "bn.c"):
            obj = os.path.join(workdir, name[:-2] + ".o")
            r = subprocess.run(["gcc", "-c", os.path.join(self.jitter, name), "-o", obj, "-I" + self.jitter] +
                               self.CFLAGS, stdout=subprocess.PIPE, stderr=subprocess.STDOUT, env=self.env)
            if r.returncode != 0:
                raise BuildFailure("%s does not compile:\n%s" % (name, r.stdout.decode(errors="replace")[-3000:]))
            self.objs.append(obj)
        self.n = 0

    def syntax_errors(self, src_path):
        """-> {case id: first error message}, [harness errors]"""
        # no -w here: it would also silence the warnings promoted to errors
        r = subprocess.run(["gcc", "-fsyntax-only", "-Werror=implicit-function-declaration",
                            "-Werror=int-conversion", "-Werror=incompatible-pointer-types",
                            "-fmax-errors=0", "-fno-diagnostics-show-caret", "-DNDEBUG",
                            "-I" + self.jitter, src_path],
                           stdout=subprocess.PIPE, stderr=subprocess.STDOUT, env=self.env)
        errs, other = {}, []
        cur = None
        for line in r.stdout.decode(errors="replace").splitlines():
            m = re.search(r"In function \W*f_(\d+)\W*:", line)
            if m:
                cur = int(m.group(1))
                continue
            if re.search(r"In function |At top level", line):
                cur = None
                continue
            m = re.match(r"^case_(\d+):\d+:\d+: (?:fatal )?error: (.*)$", line)
            if m:
                errs.setdefault(int(m.group(1)), m.group(2))
                continue
            if ": error:" in line or "fatal error" in line:
                # errors inside macro expansions are located in the header: attribute
                # them to the generated function being compiled
                if cur is not None:
                    errs.setdefault(cur, line.split("error:", 1)[1].strip())
                else:
                    other.append(line)
        return errs, other

    def build(self, cases):
        """-> (exe path, kept cases, {cid: compiler message})"""
        self.n += 1
        src = os.path.join(self.workdir, "batch%d.c" % self.n)
        rejected = {}
        kept = list(cases)
        for attempt in range(3):
            with open(src, "w") as fd:
                fd.write(emit_program(kept))
            errs, other = self.syntax_errors(src)
            if other:
                raise BuildFailure("harness code does not compile: %s" % other[:5])
            if not errs:
                break
            rejected.update(errs)
            kept = [c for c in kept if c.cid not in errs]
        else:
            raise BuildFailure("compile errors keep appearing: %r" % list(errs.items())[:3])
        exe = os.path.join(self.workdir, "batch%d.exe" % self.n)
        for attempt in range(3):
            if not kept:
                return None, kept, rejected
            r = subprocess.run(["gcc", src, "-o", exe, "-I" + self.jitter] + self.CFLAGS + self.objs + ["-lm"],
                               stdout=subprocess.PIPE, stderr=subprocess.STDOUT, env=self.env)
            if r.returncode == 0:
                break
            # functions the runtime does not provide (udiv7, MEM_LOOKUP_24 ...): rejected by the linker
            txt = r.stdout.decode(errors="replace")
            missing = {}
            cur = None
            for line in txt.splitlines():
                m = re.search(r"in function `f_(\d+)'", line)
                if m:
                    cur = int(m.group(1))
                m = re.search(r"undefined reference to `(\w+)'", line)
                if m and cur is not None:
                    missing.setdefault(cur, "undefined reference to '%s'" % m.group(1))
            if not missing:
                raise BuildFailure("batch does not link: %s" % txt[-2000:])
            rejected.update(missing)
            kept = [c for c in kept if c.cid not in missing]
            with open(src, "w") as fd:
                fd.write(emit_program(kept))
        else:
            raise BuildFailure("link errors keep appearing")
        os.unlink(src)
        return exe, kept, rejected


class BuildFailure(Exception):
    pass


_UB = re.compile(r"^(\S+?):\d+:\d+: runtime error: (.*)$")


def norm_ub(msg):
    msg = re.sub(r"0x[0-9a-fA-F]+", "N", msg)
    msg = re.sub(r"-?\d+", "N", msg)
    return msg[:90]


class Outcome(object):
    __slots__ = ("value", "miss", "stdout", "ub", "died", "stderr")

    def __init__(self):
        self.value = None
        self.miss = 0
        self.stdout = 0
        self.ub = []        # [(where, normalised message)]
        self.died = None    # reason string when the process ended inside this case
        self.stderr = ""


def run_program(exe, cases, workdir):
    """-> {(cid, j): Outcome}; restarts the program after the case in which it
    died (remaining valuations of that case are not run)"""
    res = {}
    index = {c.cid: k for k, c in enumerate(cases)}
    start = 0
    env = dict(os.environ)
    env.pop("LD_PRELOAD", None)
    env["ASAN_OPTIONS"] = "detect_leaks=0:abort_on_error=0:exitcode=97:symbolize=0:detect_stack_use_after_return=0"
    env["UBSAN_OPTIONS"] = "print_stacktrace=0:halt_on_error=0"
    guard = 0
    while start < len(cases):
        guard += 1
        if guard > len(cases) + 2:
            break
        fout = os.path.join(workdir, "stdout.bin")
        fres = os.path.join(workdir, "results.txt")
        ferr = os.path.join(workdir, "stderr.txt")
        with open(fout, "wb") as so, open(fres, "wb") as fr, open(ferr, "wb") as se:
            try:
                # CPU-time limit (not wall clock): a generated expression that never
                # returns (bignum_udiv with a zero divisor) ends with SIGXCPU
                p = subprocess.run([exe, str(start), str(fr.fileno())], stdin=subprocess.DEVNULL, stdout=so,
                                   stderr=se, pass_fds=(fr.fileno(),), env=env, timeout=3600,
                                   preexec_fn=_cpu_limit)
                rc = p.returncode
            except subprocess.TimeoutExpired:
                rc = "timeout"
        out_size = os.path.getsize(fout)
        lines = open(fres, "r", errors="replace").read().splitlines()
        errtxt = open(ferr, "r", errors="replace").read()
        # stderr split by markers
        segs = {}
        cur = None
        for line in errtxt.splitlines():
            if line.startswith("@@ "):
                a = line.split()
                cur = (int(a[1]), int(a[2]))
                segs[cur] = []
            elif cur is not None:
                segs[cur].append(line)
        last_off = 0
        begun = None
        ended = False
        for line in lines:
            a = line.split()
            if not a:
                continue
            if a[0] == "B":
                begun = (int(a[1]), int(a[2]))
                res[begun] = Outcome()
            elif a[0] == "R":
                key = (int(a[1]), int(a[2]))
                o = res.setdefault(key, Outcome())
                o.value = int(a[3], 16)
                o.miss = int(a[4])
                off = int(a[5])
                o.stdout = off - last_off
                last_off = off
                begun = None
            elif a[0] == "END":
                ended = True
        for key, seg in segs.items():
            o = res.get(key)
            if o is None:
                continue
            for line in seg:
                m = _UB.match(line)
                if m:
                    where = os.path.basename(m.group(1))
                    if where.startswith("case_"):
                        where = "generated code"
                    o.ub.append((where, norm_ub(m.group(2))))
            o.stderr = "\n".join(seg)[-1500:]
        if ended:
            break
        if begun is None:
            # died outside any case (should not happen): stop
            raise BuildFailure("program ended outside a case rc=%r: %s" % (rc, errtxt[-800:]))
        o = res[begun]
        o.stdout = out_size - last_off
        o.died = death_reason(rc, "\n".join(segs.get(begun, [])))
        start = index[begun[0]] + 1
    return res


def _cpu_limit():
    import resource
    # backstop for the whole program; the per-evaluation budget is the ITIMER_PROF set in begin()
    resource.setrlimit(resource.RLIMIT_CPU, (600, 602))


CPU_LIMIT = 10


def death_reason(rc, text):
    m = re.search(r"ERROR: AddressSanitizer: ([\w-]+)", text)
    if m:
        return "asan " + m.group(1)
    if "inv size in rot" in text:
        return "runtime rejects: inv size in rot"
    if "Should not happen" in text:
        return "runtime exit: division by zero reached"
    if "bad READ size" in text:
        return "runtime rejects: bad READ size"
    if rc == "timeout":
        return "timeout"
    if isinstance(rc, int) and rc == -27:
        return "no result within %ds of CPU time" % CPU_LIMIT
    if isinstance(rc, int) and rc < 0:
        return "signal %d" % (-rc)
    return "exit code %s" % rc


# ------------------------------------------------------------------ generator

class CGen(exprgen.Gen):
    """expressions in the shapes the C back end is fed with: identifiers of
    width 1/8/16/32/64 (native) or 65..256 (bn_t); shifts, rotations and
    divisions at native widths 8/16/32/64 or big-number widths; other widths
    are reached through slices, composes, extensions and 1-bit flags.  A small
    share of width-restricted operators at odd widths is let through so that
    compiler/runtime rejections are observed."""

    def __init__(self, rng, big=True, **kw):
        widths = [1, 8, 16, 32, 64, 3, 7, 9, 17, 24, 33, 63]
        if big:
            widths += list(BIG_WIDTHS)
        kw.setdefault("max_width", 256 if big else 64)
        super(CGen, self).__init__(rng, widths=widths, flags=False, pow_op=False, ptr_widths=(16, 32, 64), **kw)
        self.ok_ops = set(NATIVE) | (set(BIG_WIDTHS) if big else set())

    def id_(self, n):
        if n in ID_WIDTHS:
            return super(CGen, self).id_(n)
        cands = [w for w in ID_WIDTHS if w > n and w <= self.max_width]
        if not cands:
            return self.int_(n)
        m = self.rng.choice(cands[:3])
        s = self.rng.choice([0, m - n])
        return super(CGen, self).id_(m)[s:s + n]

    def _try(self, kind, n, depth):
        e = super(CGen, self)._try(kind, n, depth)
        if e is None:
            return None
        if e.is_op() and n not in self.ok_ops:
            k = xc.kind(e)
            if k in xc.SHIFT_OPS or k in xc.DIV_OPS or (k in xc.ROT_OPS and n not in (9, 17, 33)):
                if self.rng.random() < 0.9:
                    return None
        if e.is_mem() and e.size not in (8, 16, 32, 64, 128, 80, 256):
            return None
        return e
