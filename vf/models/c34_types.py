"""C34 model: an independent byte-level description of miasm.core.types type trees.

Every model node knows its size, where its children live and how a python value is
encoded (int.to_bytes / bit arithmetic written here; struct only for IEEE floats) and
can build the corresponding miasm Type.  The check keeps a mirror bytearray of the VM
page, applies the model's idea of each write to the mirror and compares the whole page.
"""
import math
import struct

# fmt -> (size, signed, byteorder, is_float); formats without a prefix are native (x86-64 host)
NUM_FMTS = {
    "B": (1, False, "little", False), "b": (1, True, "little", False),
    "<H": (2, False, "little", False), ">H": (2, False, "big", False), "H": (2, False, "little", False),
    "<h": (2, True, "little", False), ">h": (2, True, "big", False),
    "<I": (4, False, "little", False), ">I": (4, False, "big", False), "I": (4, False, "little", False),
    "<i": (4, True, "little", False), ">i": (4, True, "big", False),
    "<Q": (8, False, "little", False), ">Q": (8, False, "big", False), "Q": (8, False, "little", False),
    "<q": (8, True, "little", False), ">q": (8, True, "big", False),
    "<f": (4, True, "little", True), ">d": (8, True, "big", True), "<d": (8, True, "little", True),
}
PTR_FMTS = ["<I", ">I", "I", "<Q", ">Q", "<H"]


class Node(object):
    kind = "?"
    leaf = False

    def children(self):
        """list of (step, child node, byte offset); step = ("f", name) | ("i", index)"""
        return []


class MNum(Node):
    kind = "Num"
    leaf = True

    def __init__(self, fmt):
        self.fmt = fmt
        self.size, self.signed, self.order, self.is_float = NUM_FMTS[fmt]

    def mk(self, T):
        return T.Num(self.fmt)

    def enc(self, val):
        if self.is_float:
            return struct.pack(self.fmt, val)
        return int(val).to_bytes(self.size, self.order, signed=self.signed)

    def dec(self, raw):
        if self.is_float:
            return struct.unpack(self.fmt, bytes(raw))[0]
        return int.from_bytes(bytes(raw), self.order, signed=self.signed)

    def rand(self, rng):
        if self.is_float:
            while True:
                v = struct.unpack(self.fmt, bytes(rng.getrandbits(8) for _ in range(self.size)))[0]
                if not math.isnan(v):
                    return v
        bits = 8 * self.size
        lo = -(1 << (bits - 1)) if self.signed else 0
        hi = (1 << (bits - 1)) - 1 if self.signed else (1 << bits) - 1
        r = rng.random()
        if r < 0.25:
            return rng.choice([lo, hi, 0, 1 if hi >= 1 else 0, -1 if self.signed else hi - 1])
        return rng.randint(lo, hi)

    def descr(self):
        return "Num(%s)" % self.fmt


class MPtr(MNum):
    kind = "Ptr"

    def __init__(self, fmt, dst, dst_kind):
        MNum.__init__(self, fmt)
        self.dst, self.dst_kind = dst, dst_kind     # dst: model node | "str:<enc>" | None

    def mk(self, T):
        if self.dst_kind == "void":
            return T.Ptr(self.fmt, T.Void())
        if self.dst_kind == "self":
            return T.Ptr(self.fmt, T.Self())
        if self.dst_kind == "str":
            return T.Ptr(self.fmt, T.Str(self.dst))
        return T.Ptr(self.fmt, self.dst.mk(T))

    def descr(self):
        return "Ptr(%s,%s)" % (self.fmt, self.dst_kind)


class MStruct(Node):
    kind = "Struct"

    def __init__(self, name, fields):
        """fields: [(name or "", node)]"""
        self.name, self.fields = name, fields
        off = 0
        self.offsets = []
        for _, node in fields:
            self.offsets.append(off)
            off = self._next(off, node)
        self.size = self._size()

    def _next(self, off, node):
        return off + node.size

    def _size(self):
        return sum(n.size for _, n in self.fields)

    def mk(self, T):
        return T.Struct(self.name, [(n, node.mk(T)) for n, node in self.fields])

    def children(self):
        """steps are ("f", name, depth): depth = number of anonymous aggregates between this
        struct and the member (miasm exposes view attributes only for depth <= 1)"""
        out = []
        for (name, node), off in zip(self.fields, self.offsets):
            if name:
                out.append((("f", name, 0), node, off))
            else:
                # anonymous aggregate: its members are reachable from this struct
                for step, sub, suboff in node.children():
                    out.append((("f", step[1], step[2] + 1), sub, off + suboff))
        return out

    def descr(self):
        return "%s{%s}" % (self.kind, ",".join("%s:%s" % (n or "_", f.descr()) for n, f in self.fields))


class MUnion(MStruct):
    kind = "Union"

    def __init__(self, fields):
        MStruct.__init__(self, "union", fields)

    def _next(self, off, node):
        return off

    def _size(self):
        return max(n.size for _, n in self.fields)

    def mk(self, T):
        return T.Union([(n, node.mk(T)) for n, node in self.fields])


class MArray(Node):
    kind = "Array"

    def __init__(self, elem, n):
        self.elem, self.n = elem, n
        self.size = elem.size * n

    def mk(self, T):
        return T.Array(self.elem.mk(T), self.n)

    def children(self):
        return [(("i", i, 0), self.elem, i * self.elem.size) for i in range(self.n)]

    def descr(self):
        return "[%s;%d]" % (self.elem.descr(), self.n)


class MBits(Node):
    kind = "Bits"
    leaf = True

    def __init__(self, num, nbits, bitoff):
        self.num, self.nbits, self.bitoff = num, nbits, bitoff
        self.size = num.size

    def unsigned(self, raw):
        return int.from_bytes(bytes(raw), self.num.order, signed=False)

    def dec(self, raw):
        return (self.unsigned(raw) >> self.bitoff) & ((1 << self.nbits) - 1)

    def enc_into(self, raw, val):
        """new backing bytes after writing @val into the bits (other bits kept)"""
        mask = ((1 << self.nbits) - 1) << self.bitoff
        new = (self.unsigned(raw) & ~mask) | ((val << self.bitoff) & mask)
        return new.to_bytes(self.num.size, self.num.order, signed=False)

    def rand(self, rng):
        r = rng.random()
        if r < 0.7:
            return rng.getrandbits(self.nbits)
        if r < 0.85:
            return rng.getrandbits(self.nbits + 3)      # documented: truncated
        return -rng.getrandbits(self.nbits + 1)         # python ints: masked

    def descr(self):
        return "Bits(%d@%d)" % (self.nbits, self.bitoff)


class MBitField(Node):
    kind = "BitField"

    def __init__(self, num, bits):
        """bits: [(name, nbits)]; the backing number is unsigned"""
        self.num, self.bits = num, bits
        self.size = num.size
        off = 0
        self.members = []
        for name, nb in bits:
            self.members.append((name, MBits(num, nb, off)))
            off += nb

    def mk(self, T):
        return T.BitField(T.Num(self.num.fmt), list(self.bits))

    def children(self):
        return [(("f", name, 0), node, 0) for name, node in self.members]

    def descr(self):
        return "BitField(%s;%s)" % (self.num.fmt, ",".join("%s:%d" % b for b in self.bits))


# --------------------------------------------------------------------------
# random type trees

class Gen(object):
    def __init__(self, rng, prefix):
        self.rng, self.prefix = rng, prefix
        self.count = 0
        self.fname = 0

    def name(self):
        self.count += 1
        if self.rng.random() < 0.3:
            # names recur inside one process with other layouts (two revisions of "struct hdr"):
            # type identity is the name AND the fields, the per-type view classes are cached globally
            return self.rng.choice(["hdr", "node", "S"])
        return "%s_%d" % (self.prefix, self.count)

    def field_name(self):
        self.fname += 1
        return "f%d" % self.fname

    def num(self, allow_float=True):
        fmts = [f for f in NUM_FMTS if allow_float or not NUM_FMTS[f][3]]
        return MNum(self.rng.choice(fmts))

    def bitfield(self):
        fmt = self.rng.choice(["B", "<H", ">H", "<I", ">I", "<Q", ">Q"])
        total = 8 * NUM_FMTS[fmt][0]
        bits, used = [], 0
        for _ in range(self.rng.randint(1, 5)):
            room = total - used
            if room <= 0:
                break
            nb = self.rng.randint(1, min(room, self.rng.choice([1, 3, 8, 13, room])))
            bits.append((self.field_name(), nb))
            used += nb
        return MBitField(MNum(fmt), bits)

    def ptr(self, depth):
        fmt = self.rng.choice(PTR_FMTS)
        r = self.rng.random()
        if r < 0.3:
            return MPtr(fmt, self.num(), "num")
        if r < 0.5:
            return MPtr(fmt, self.struct(depth + 2), "struct")
        if r < 0.7:
            return MPtr(fmt, self.rng.choice(["ascii", "latin1", "ansi", "utf8", "utf16"]), "str")
        if r < 0.85:
            return MPtr(fmt, None, "self")
        return MPtr(fmt, None, "void")

    def any(self, depth):
        r = self.rng.random()
        if depth >= 3 or r < 0.36:
            return self.num()
        if r < 0.48:
            return self.ptr(depth)
        if r < 0.62:
            return self.struct(depth + 1)
        if r < 0.74:
            return self.union(depth + 1)
        if r < 0.90:
            return MArray(self.any(depth + 1), self.rng.randint(1, 5))
        return self.bitfield()

    def fields(self, depth, lo, hi, anon_ok):
        out = []
        for _ in range(self.rng.randint(lo, hi)):
            node = self.any(depth)
            if anon_ok and node.kind in ("Struct", "Union", "BitField") and self.rng.random() < 0.35:
                out.append(("", node))
            else:
                out.append((self.field_name(), node))
        return out

    def struct(self, depth):
        return bind_self(MStruct(self.name(), self.fields(depth, 1, 5 if depth else 6, True)))

    def union(self, depth):
        return bind_self(MUnion(self.fields(depth, 1, 4, False)))


def bind_self(agg):
    """Ptr(Self) members (directly or as array elements) point to the innermost enclosing
    Struct/Union, as Struct._gen_fields/_set_self_type do"""
    def visit(node):
        if isinstance(node, MPtr) and node.dst_kind == "self":
            node.dst = agg
        elif isinstance(node, MArray):
            visit(node.elem)
    for _, f in agg.fields:
        visit(f)
    return agg


def self_ptr_in_union(node, seen=None):
    """does the tree hold a Ptr(Self) whose enclosing aggregate is a Union?"""
    seen = set() if seen is None else seen
    if id(node) in seen:
        return False
    seen.add(id(node))
    if isinstance(node, MPtr):
        if node.dst_kind == "self":
            return isinstance(node.dst, MUnion)
        return isinstance(node.dst, Node) and self_ptr_in_union(node.dst, seen)
    if isinstance(node, MStruct):
        return any(self_ptr_in_union(f, seen) for _, f in node.fields)
    if isinstance(node, MArray):
        return self_ptr_in_union(node.elem, seen)
    return False


def leaves(node, base=0, path=()):
    """all (path, leaf node, offset) below @node"""
    out = []
    for step, child, off in node.children():
        p = path + (step,)
        if child.leaf:
            out.append((p, child, base + off))
        else:
            out.extend(leaves(child, base + off, p))
    return out


def inner_nodes(node, base=0, path=()):
    """all (path, aggregate node, offset) strictly below @node"""
    out = []
    for step, child, off in node.children():
        p = path + (step,)
        if not child.leaf:
            out.append((p, child, base + off))
            out.extend(inner_nodes(child, base + off, p))
    return out


def kinds(node, acc=None):
    acc = set() if acc is None else acc
    acc.add(node.kind)
    if isinstance(node, MStruct):
        for _, f in node.fields:
            kinds(f, acc)
    elif isinstance(node, MArray):
        kinds(node.elem, acc)
    elif isinstance(node, MPtr) and isinstance(node.dst, Node) and node.dst_kind != "self":
        kinds(node.dst, acc)
    if isinstance(node, MNum) and not node.is_float and node.size > 1:
        acc.add("order:" + ("big" if node.fmt.startswith(">") else "little"))
    return acc
