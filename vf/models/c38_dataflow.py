"""Path-based definitions of reaching definitions, def-use links and liveness
on tiny abstract programs (C38).

An abstract program is

    prog = dict(
        blocks = [ [ab, ab, ...], ... ]     # block k = list of assignblocks
        succ   = [ [k1, k2], ... ]          # successor *blocks* (indices) of block k
        leaf_out = [ set(vars) or None ]    # variables read by the environment when block k
                                            # leaves the graph (None: block never leaves)
    )
    ab = dict(reads=set(vars), writes=set(vars),
              assigns=[(lval, reads_all, reads_nomem)])
    (parallel assignment: all reads happen before all writes)

Everything here is the definition itself evaluated by enumerating block paths
with backtracking (interior blocks pairwise distinct: both notions only ask for
the existence of a path on which *no* assignblock of a given kind is crossed,
so a walk with a repeated block can always be shortened to such a path).  No
miasm import, no fixpoint iteration.
"""


def block_paths(succ, src, dst):
    """all sequences [src, x1, .., xn, dst] (n >= 0) following edges, the xi pairwise
    distinct and different from src and dst; src == dst gives the cycles through src
    (at least one edge)"""
    out = []
    path = [src]
    used = set()

    def rec(node):
        for nxt in succ[node]:
            if nxt == dst:
                out.append(path + [dst])
            if nxt == dst or nxt == src or nxt in used:
                continue
            used.add(nxt)
            path.append(nxt)
            rec(nxt)
            path.pop()
            used.discard(nxt)
    rec(src)
    return out


def all_paths(succ):
    n = len(succ)
    return {(a, b): block_paths(succ, a, b) for a in range(n) for b in range(n)}


def clean(blocks, k, lo, hi, var):
    """no assignblock of block k with index in [lo, hi) writes var"""
    blk = blocks[k]
    for i in range(lo, hi):
        if var in blk[i]["writes"]:
            return False
    return True


def reaching_definitions(prog, paths=None):
    """dict (k, i) -> dict var -> set((kd, jd)) for every point i in 0..len(block k):
    the definitions of var that reach the point *before* assignblock i of block k
    (i == len: the end of the block)"""
    blocks = prog["blocks"]
    succ = prog["succ"]
    if paths is None:
        paths = all_paths(succ)
    defs = []
    for k, blk in enumerate(blocks):
        for j, ab in enumerate(blk):
            for var in ab["writes"]:
                defs.append((k, j, var))
    out = {}
    for c, blk in enumerate(blocks):
        for i in range(len(blk) + 1):
            here = {}
            for (b, j, var) in defs:
                ok = False
                if b == c and j < i and clean(blocks, c, j + 1, i, var):
                    # stays inside the block
                    ok = True
                elif clean(blocks, b, j + 1, len(blocks[b]), var) and clean(blocks, c, 0, i, var):
                    # leaves block b, crosses interior blocks entirely, enters block c
                    for path in paths[(b, c)]:
                        if all(clean(blocks, x, 0, len(blocks[x]), var) for x in path[1:-1]):
                            ok = True
                            break
                if ok:
                    here.setdefault(var, set()).add((b, j))
            out[(c, i)] = here
    return out


def def_use(prog, reach, deref_mem):
    """set of edges ((kd, jd, var), (ku, iu, lval)): the assignment to lval in assignblock
    (ku, iu) reads var and the definition (kd, jd) of var reaches that assignblock.
    @deref_mem: reads through memory pointers (and the pointer of a memory destination) count"""
    blocks = prog["blocks"]
    edges = set()
    for k, blk in enumerate(blocks):
        for i, ab in enumerate(blk):
            for lval, reads_all, reads_nomem in ab["assigns"]:
                reads = reads_all if deref_mem else reads_nomem
                for var in reads:
                    for (kd, jd) in reach[(k, i)].get(var, ()):
                        edges.add(((kd, jd, var), (k, i, lval)))
    return edges


def _scan(blocks, k, lo, var):
    """scan block k from assignblock lo: 'read' if var is read before being written,
    'killed' if written first (a read in the same assignblock comes first), 'through'"""
    blk = blocks[k]
    for i in range(lo, len(blk)):
        if var in blk[i]["reads"]:
            return "read"
        if var in blk[i]["writes"]:
            return "killed"
    return "through"


def liveness(prog, variables, edge_reads=None):
    """-> (live_in, live_out): dict (k, i) -> set(vars), for i in 0..len(block k)-1:
    variables live before / after assignblock i of block k.

    var is live at a point iff some path from the point reads var before writing it;
    the environment reads prog['leaf_out'][k] when block k leaves the graph.
    @edge_reads: optional dict (p, s) -> set(vars) read *on the edge* p -> s, before
    anything in s (phi arguments attached to their predecessor)."""
    blocks = prog["blocks"]
    succ = prog["succ"]
    leaf_out = prog["leaf_out"]
    n = len(blocks)
    edge_reads = edge_reads or {}

    def live_at_end(k, var):
        used = set()

        def rec(a):
            # at the end of block a, var neither read nor written since the start point
            if leaf_out[a] is not None and var in leaf_out[a]:
                return True
            for b in succ[a]:
                if var in edge_reads.get((a, b), ()):
                    return True
                if b in used:
                    continue
                st = _scan(blocks, b, 0, var)
                if st == "read":
                    return True
                if st == "killed":
                    continue
                used.add(b)
                found = rec(b)
                used.discard(b)
                if found:
                    return True
            return False
        return rec(k)

    end_live = {k: set(v for v in variables if live_at_end(k, v)) for k in range(n)}
    live_in, live_out = {}, {}
    for k, blk in enumerate(blocks):
        for i in range(len(blk)):
            s_in, s_out = set(), set()
            for var in variables:
                st = _scan(blocks, k, i, var)
                if st == "read" or (st == "through" and var in end_live[k]):
                    s_in.add(var)
                st = _scan(blocks, k, i + 1, var)
                if st == "read" or (st == "through" and var in end_live[k]):
                    s_out.add(var)
            live_in[(k, i)] = s_in
            live_out[(k, i)] = s_out
    return live_in, live_out
