"""Brute-force textbook definitions of directed-graph notions.

Pure Python, no miasm import.  A graph is a plain mapping

    succ : dict  node -> set (or any iterable) of successor nodes

Every node of the graph must be a key of `succ` (isolated nodes map to an
empty set); use `normalize()` to obtain that form from nodes + edges.  Nodes
are any hashable values.  Nothing here is clever: every function is the
definition itself, evaluated by reachability searches, so that it can serve as
an oracle for the real algorithms (complexity is polynomial but high; meant for
graphs of up to a few dozen nodes).

Conventions
* "reachable" is reflexive: a node reaches itself by the empty path.
* Dominance is only defined on the nodes reachable from the head; the returned
  dictionaries have exactly those nodes as keys.  `d dominates n` iff every
  path head -> n contains d, i.e. iff d == n or n is not reachable from head
  once d is removed.  A head that has predecessors is still dominated by itself
  only.
* Post-dominance with respect to a leaf is dominance in the reversed graph.
"""


# ---------------------------------------------------------------- basic forms

def normalize(nodes, edges):
    """dict node -> set(successors) from an iterable of nodes and of (src, dst)"""
    succ = {n: set() for n in nodes}
    for a, b in edges:
        succ.setdefault(a, set()).add(b)
        succ.setdefault(b, set())
    return succ


def nodes_of(succ):
    return set(succ)


def edges_of(succ):
    return set((a, b) for a in succ for b in succ[a])


def reverse(succ):
    """the graph with every edge flipped (same node set)"""
    pred = {n: set() for n in succ}
    for a in succ:
        for b in succ[a]:
            pred[b].add(a)
    return pred


predecessors = reverse


def without(succ, removed):
    """the sub-graph induced by the nodes not in @removed"""
    removed = set(removed)
    return {n: set(s for s in succ[n] if s not in removed) for n in succ if n not in removed}


def reachable(succ, start, removed=()):
    """nodes reachable from @start (included) by paths avoiding @removed;
    empty if @start itself is removed or not in the graph"""
    removed = set(removed)
    if start in removed or start not in succ:
        return set()
    seen = set([start])
    todo = [start]
    while todo:
        n = todo.pop()
        for s in succ[n]:
            if s not in seen and s not in removed:
                seen.add(s)
                todo.append(s)
    return seen


def coreachable(succ, target, removed=()):
    """nodes from which @target can be reached (target included)"""
    return reachable(reverse(succ), target, removed)


def reachable_stop(succ, start, stop):
    """nodes reachable from @start by paths on which @stop is never *left*:
    @stop may be reached (and is then part of the result) but its successors are
    not followed.  With the reversed graph this is 'parents of a leaf, not
    looking past the head'."""
    if start not in succ:
        return set()
    seen = set([start])
    todo = [start]
    while todo:
        n = todo.pop()
        if n == stop:
            continue
        for s in succ[n]:
            if s not in seen:
                seen.add(s)
                todo.append(s)
    return seen


# ---------------------------------------------------------------- dominance

def dominators(succ, head):
    """dict n -> set of dominators of n (n included), for n reachable from @head"""
    reach = reachable(succ, head)
    dom = {}
    for n in reach:
        dom[n] = set([n])
    for d in reach:
        if d == head:
            # the head is on every path that starts at the head
            for n in reach:
                dom[n].add(head)
            continue
        still = reachable(succ, head, removed=[d])
        for n in reach:
            if n not in still:
                dom[n].add(d)
    return dom


def strict_dominators(succ, head):
    dom = dominators(succ, head)
    return {n: dom[n] - set([n]) for n in dom}


def dominates(dom, d, n):
    """@dom as returned by dominators(); False for nodes outside of it"""
    return n in dom and d in dom[n]


def immediate_dominators(succ, head, dom=None):
    """dict n -> idom(n) for every reachable n except the head: the strict
    dominator of n that every other strict dominator of n dominates"""
    if dom is None:
        dom = dominators(succ, head)
    out = {}
    for n in dom:
        sd = dom[n] - set([n])
        if not sd:
            continue
        cands = [d for d in sd if all(o in dom[d] for o in sd)]
        if len(cands) != 1:
            raise AssertionError("no unique immediate dominator for %r: %r" % (n, cands))
        out[n] = cands[0]
    return out


def dominator_chain(succ, head, node, dom=None):
    """strict dominators of @node, nearest first (idom, idom of idom, ..., head)"""
    if dom is None:
        dom = dominators(succ, head)
    if node not in dom:
        return []
    sd = dom[node] - set([node])
    # a nearer dominator is dominated by more nodes
    return sorted(sd, key=lambda d: -len(dom[d]))


def dominator_tree_edges(succ, head, dom=None):
    """set of (idom(n), n)"""
    idom = immediate_dominators(succ, head, dom)
    return set((d, n) for n, d in idom.items())


def dominance_frontier(succ, head, dom=None):
    """dict x -> DF(x) for every reachable x (possibly an empty set):
    DF(x) = { y : x dominates a predecessor of y and x does not strictly
    dominate y }.  Only reachable predecessors count."""
    if dom is None:
        dom = dominators(succ, head)
    pred = reverse(succ)
    out = {x: set() for x in dom}
    for y in dom:
        for p in pred[y]:
            if p not in dom:
                continue
            for x in dom[p]:
                if not (x != y and x in dom[y]):
                    out[x].add(y)
    return out


def postdominators(succ, leaf):
    """dict n -> set of post-dominators of n (n included) for every n that can
    reach @leaf"""
    return dominators(reverse(succ), leaf)


def immediate_postdominators(succ, leaf, pdom=None):
    return immediate_dominators(reverse(succ), leaf, pdom)


# ---------------------------------------------------------------- loops

def back_edges(succ, head, dom=None):
    """set of edges (a, b), a reachable from head, whose target b dominates
    their source a (a self-loop is a back edge)"""
    if dom is None:
        dom = dominators(succ, head)
    return set((a, b) for a in dom for b in succ[a] if b in dom[a])


def natural_loop(succ, edge):
    """body of the natural loop of the back edge (a, b): b plus every node that
    can reach a without going through b"""
    a, b = edge
    return set([b]) | coreachable(succ, a, removed=[b])


def natural_loops(succ, head, dom=None):
    """dict back edge -> frozenset(body)"""
    return {e: frozenset(natural_loop(succ, e)) for e in back_edges(succ, head, dom)}


def has_cycle(succ):
    """True iff some node can come back to itself by a non-empty path"""
    for n in succ:
        for s in succ[n]:
            if n in reachable(succ, s):
                return True
    return False


# ---------------------------------------------------------------- components

def strongly_connected_components(succ):
    """set of frozensets: classes of mutual reachability"""
    reach = {n: reachable(succ, n) for n in succ}
    out = set()
    for n in succ:
        out.add(frozenset(m for m in reach[n] if n in reach[m]))
    return out


def weakly_connected_components(succ):
    """set of frozensets: connected components of the underlying undirected graph"""
    und = {n: set(succ[n]) for n in succ}
    for a in succ:
        for b in succ[a]:
            und[b].add(a)
    out = set()
    for n in succ:
        out.add(frozenset(reachable(und, n)))
    return out


# ---------------------------------------------------------------- paths

def simple_paths(succ, src, dst):
    """list of all paths src -> dst that visit no node twice ([src] if src == dst)"""
    return bounded_walks(succ, src, dst, 1)


def bounded_walks(succ, src, dst, max_occurrences, limit=None, endpoints_once=False):
    """list of all walks src -> dst (lists of nodes, consecutive nodes joined
    by an edge) in which no node occurs more than @max_occurrences times.
    @endpoints_once: only the walks that never come back to @src and stop the
    first time they reach @dst.
    @limit: stop (return None) when more than @limit walks exist."""
    out = []
    if src not in succ or dst not in succ:
        return out
    count = {src: 1}
    path = [src]

    class TooMany(Exception):
        pass

    def rec(n):
        if n == dst:
            out.append(list(path))
            if limit is not None and len(out) > limit:
                raise TooMany()
            if endpoints_once:
                return
        for s in succ[n]:
            c = count.get(s, 0)
            if c >= max_occurrences or (endpoints_once and s == src):
                continue
            count[s] = c + 1
            path.append(s)
            rec(s)
            path.pop()
            count[s] = c

    try:
        rec(src)
    except TooMany:
        return None
    return out


def is_walk(succ, path):
    return all(a in succ and b in succ[a] for a, b in zip(path, path[1:])) and \
        all(n in succ for n in path)
