"""CPU-time limit for one call into the code under test (ITIMER_PROF, so the
limit does not depend on how loaded the machine is).

    install()
    with cpu_limit(5): ...      # raises CpuTimeout after 5 s of process CPU time
"""
import signal


class CpuTimeout(Exception):
    pass


def _alarm(signum, frame):
    raise CpuTimeout()


def install():
    signal.signal(signal.SIGPROF, _alarm)


class cpu_limit(object):
    def __init__(self, seconds):
        self.seconds = seconds

    def __enter__(self):
        signal.setitimer(signal.ITIMER_PROF, self.seconds)

    def __exit__(self, *a):
        signal.setitimer(signal.ITIMER_PROF, 0)
        return False
