"""C06 helper: feed SMT-LIB2 queries built around TranslatorSMT2 output to the
z3 and cvc5 binaries, in batches ((push 1) ... (pop 1) per query, one solver
process per batch), and parse the answers."""
import os
import re
import subprocess
import tempfile

Z3_BIN = "/usr/bin/z3"
CVC5_BIN = "/usr/bin/cvc5"
HEADER = "(set-option :produce-models true)\n(set-logic QF_ABV)\n"


def tools_missing():
    return [p for p in (Z3_BIN, CVC5_BIN) if not os.access(p, os.X_OK)]


def wrap(qid, body):
    return '(echo "Q %d")\n(push 1)\n%s(pop 1)\n' % (qid, body)


_MARK = re.compile(r'^"?Q (\d+)"?\s*$', re.M)
_VAL = re.compile(r'\(\s*\(\s*VERIF_T\s+(#x[0-9a-fA-F]+|#b[01]+|\(_ bv\d+ \d+\))\s*\)\s*\)')


def parse(out):
    """-> {qid: (status, value or None, raw)}; status unsat/sat/unknown/error/none"""
    res = {}
    marks = list(_MARK.finditer(out))
    for i, m in enumerate(marks):
        seg = out[m.end(): marks[i + 1].start() if i + 1 < len(marks) else len(out)]
        qid = int(m.group(1))
        if "(error" in seg:
            st = "error"
        else:
            toks = [t for t in seg.split() if t in ("sat", "unsat", "unknown")]
            st = toks[0] if toks else ("unknown" if "timeout" in seg else "none")
        val = None
        mv = _VAL.search(seg)
        if mv and st == "sat":
            t = mv.group(1)
            if t.startswith("#x"):
                val = int(t[2:], 16)
            elif t.startswith("#b"):
                val = int(t[2:], 2)
            else:
                val = int(t.split()[1][2:])
        res[qid] = (st, val, seg.strip()[:400])
    return res


def run_solver(cmd, queries, workdir, tag, restart_after_error):
    """@queries: list of (qid, body).  Returns {qid: (status, value, raw)}.
    A solver that stops at the first error (cvc5) is restarted on the rest."""
    results = {}
    pending = list(queries)
    rounds = 0
    while pending:
        rounds += 1
        fd, path = tempfile.mkstemp(prefix="%s_" % tag, suffix=".smt2", dir=workdir)
        with os.fdopen(fd, "w") as fh:
            fh.write(HEADER)
            for qid, body in pending:
                fh.write(wrap(qid, body))
        try:
            # the solvers run under their own deterministic resource limits; this
            # wall-clock cap is only a safety net (its expiry leaves queries undecided)
            r = subprocess.run(cmd + [path], stdout=subprocess.PIPE, stderr=subprocess.STDOUT,
                               timeout=600 + 30 * len(pending))
            out = r.stdout.decode(errors="replace")
        except subprocess.TimeoutExpired as exc:
            out = (exc.stdout or b"").decode(errors="replace")
        os.unlink(path)
        got = parse(out)
        done = 0
        for qid, body in pending:
            if qid not in got:
                break
            st = got[qid]
            done += 1
            results[qid] = st
            if st[0] in ("error", "none") and restart_after_error:
                break   # everything after the error was not processed
        if done == 0:
            # no progress: the solver did not even echo the first marker
            qid = pending[0][0]
            results[qid] = ("none", None, out[-400:])
            done = 1
        pending = pending[done:]
        if not restart_after_error:
            for qid, body in pending:
                results.setdefault(qid, ("none", None, ""))
            break
        if rounds > len(queries) + 2:
            break
    return results


def run_both(queries, workdir, batch=200):
    """-> {qid: {'z3': (...), 'cvc5': (...)}}"""
    out = {}
    for start in range(0, len(queries), batch):
        chunk = queries[start:start + batch]
        rz = run_solver([Z3_BIN, "-smt2", "rlimit=50000000"], chunk, workdir, "z3", restart_after_error=False)
        rc = run_solver([CVC5_BIN, "--incremental", "--lang=smt2", "--rlimit-per=20000000"], chunk, workdir,
                        "cvc5", restart_after_error=True)
        for qid, _ in chunk:
            out[qid] = dict(z3=rz.get(qid, ("none", None, "")), cvc5=rc.get(qid, ("none", None, "")))
    return out


def bvval(v, n):
    return "(_ bv%d %d)" % (v, n)


def verdict(ans):
    """combine the two solvers' answers on a `distinct` query:
    agree / differ / illformed / undecided"""
    a, b = ans["z3"][0], ans["cvc5"][0]
    if a == "unsat" and b == "unsat":
        return "agree"
    if a == "sat" and b == "sat":
        return "differ"
    if a == "error" and b == "error":
        return "illformed"
    if "error" in (a, b):
        return "one_solver_error"
    if set((a, b)) == set(("sat", "unsat")):
        return "solvers_disagree"
    return "undecided"
