"""C32 helpers: random assembly programs (text for parse_asm.parse_txt) and the
independent oracle on the patches returned by asmblock.asm_resolve_final.

Trusted: mn.fromstring / mn.dis / dstflow2label of the architectures (used to
re-decode the produced image), struct packing.  Under test: parse_txt's block
building, group_constrained_blocks, BlockChain.place/fix_blocks, resolve_symbol,
asmblock_final/assemble_block, asm_resolve_final.
"""
import struct


class Arch(object):
    def __init__(self, name, mn, attrib, plain, labelref, cond, jmp, call, stop, unit, ub,
                 delay=None, span=0x4000, far=0x100, big=False,
                 bases=(0x1000, 0x10000, 0x8000), cbases=(0x2000, 0x400, 0x20000)):
        self.name, self.mn, self.attrib = name, mn, attrib
        self.plain, self.labelref, self.cond, self.jmp, self.call, self.stop = \
            plain, labelref, cond, jmp, call, stop
        self.unit = unit        # data/code granularity (alignment of the architecture)
        self.ub = ub            # upper bound of an instruction's size
        self.delay = delay      # delay-slot filler instructions
        self.span = span        # all pins stay within this window (branch ranges)
        self.far = far          # minimal distance between chains in the base run
        self.big = big
        # floating chains are placed from address 0 upwards: bases stay within branch range
        self.bases, self.cbases = bases, cbases


def arch_table():
    from miasm.arch.x86.arch import mn_x86
    from miasm.arch.arm.arch import mn_arm
    from miasm.arch.mips32.arch import mn_mips32
    from miasm.arch.msp430.arch import mn_msp430
    x86_32 = dict(
        plain=["NOP", "INC EAX", "ADD EAX, EBX", "MOV EAX, 0x11223344", "PUSH EBX", "XOR ECX, ECX",
               "MOV DWORD PTR [EAX+0x10], EBX", "LEA EAX, DWORD PTR [EBX+ECX*0x4]", "SUB ESP, 0x20",
               "CMP EAX, 0x7F", "MOV BYTE PTR [ESI], 0x1"],
        labelref=["MOV EAX, %s", "PUSH %s", "MOV DWORD PTR [ESP], %s", "CMP EBX, %s"],
        cond=["JZ %s", "JNZ %s", "JB %s", "JGE %s"], jmp=["JMP %s"], call=["CALL %s"],
        stop=["RET", "RET 0x8", "INT 0x3", "JMP EAX"])
    x86_64 = dict(
        plain=["NOP", "INC RAX", "ADD RAX, RBX", "MOV RAX, 0x1122334455667788", "PUSH RBX",
               "XOR ECX, ECX", "MOV QWORD PTR [RAX+0x10], RBX", "SUB RSP, 0x20", "CMP EAX, 0x7F",
               "MOV R9, R10"],
        labelref=["MOV RAX, %s", "MOV EAX, %s"],
        cond=["JZ %s", "JNZ %s", "JB %s", "JGE %s"], jmp=["JMP %s"], call=["CALL %s"],
        stop=["RET", "JMP RAX"])
    arm = dict(
        plain=["MOV R0, R1", "ADD R0, R0, 0x4", "LDR R0, [R1, 0x4]", "SUB R2, R2, R3", "CMP R0, R1",
               "EOR R3, R3, R2", "STR R2, [SP, 0x8]", "MOV R5, 0xFF"],
        labelref=[], cond=["BEQ %s", "BNE %s", "BGT %s"], jmp=["B %s"], call=["BL %s"],
        stop=["BX LR", "MOV PC, LR"])
    mips = dict(
        plain=["ADDIU A0, ZERO, 0x10", "ADDIU A1, A1, 0x1", "ORI T0, T1, 0x55", "ADDU V0, A0, A1",
               "LW T2, 0x4(SP)", "SW T2, 0x8(SP)", "NOP"],
        labelref=[], cond=["BNE A0, ZERO, %s", "BEQ A0, A1, %s", "BGEZ A2, %s"], jmp=["B %s"],
        call=["BAL %s"], stop=["JR RA"],
        delay=["NOP", "ADDIU A0, A0, 0xFFFFFFFF", "ORI T0, T1, 0x55"])
    msp = dict(
        plain=["mov.w 0x10, R10", "add.w 1, R11", "sub.w 1, R10", "mov.w R10, R11", "xor.w R9, R8",
               "mov.w 0x1234, R12"],
        labelref=["mov.w %s, R10"], cond=["jnz %s", "jz %s", "jc %s"], jmp=["jmp %s"],
        call=["call %s"], stop=["mov.w @SP+, PC"])
    return [
        Arch("x86_32", mn_x86, 32, unit=1, ub=15, far=0x100, bases=(0x1000, 0x400000, 0x80, 0x10000),
             cbases=(0x2000, 0x400, 0x7000000), **x86_32),
        Arch("x86_64", mn_x86, 64, unit=1, ub=15, far=0x100, bases=(0x1000, 0x400000, 0x80, 0x10000),
             cbases=(0x2000, 0x400, 0x7000000), **x86_64),
        Arch("arml", mn_arm, 'l', unit=4, ub=4, far=0x10, **arm),
        Arch("armb", mn_arm, 'b', unit=4, ub=4, far=0x10, big=True, **arm),
        Arch("mips32l", mn_mips32, 'l', unit=4, ub=4, far=0x10, **mips),
        Arch("mips32b", mn_mips32, 'b', unit=4, ub=4, far=0x10, big=True, **mips),
        Arch("msp430", mn_msp430, None, unit=2, ub=8, far=0x8, span=0x300, bases=(0x100, 0x140),
             cbases=(0x100, 0x40), **msp),
    ]


class Program(object):
    """blocks: list of (label, items); item = ("ins", text, label or None) | ("data", text, spec)
    spec: list of ("bytes", b) | ("label", name, size_bits)"""

    def __init__(self, arch, blocks, falls):
        self.arch, self.blocks = arch, blocks
        # labels whose block runs into the next label of the text (no terminator, conditional
        # branch, call or data): the assembler must keep the two blocks contiguous
        self.falls = falls

    def required_links(self):
        labels = [l for l, _ in self.blocks]
        return {a: labels[i + 1] for i, a in enumerate(labels[:-1]) if a in self.falls}

    def text(self):
        out = []
        for label, items in self.blocks:
            out.append("%s:" % label)
            for it in items:
                out.append("    " + it[1])
        return "\n".join(out) + "\n"

    def ninstr(self):
        return sum(1 for _, items in self.blocks for it in items if it[0] == "ins")


def gen_program(arch, rng, many_chains=False):
    """@many_chains: more blocks, most of them ending in a jump/return, so that the program has
    several fall-through chains (needed for layouts where several floating chains compete for
    the holes between several pinned chains)"""
    small = arch.name == "msp430"
    if many_chains:
        nblocks = rng.randint(5, 7 if small else 10)
    else:
        nblocks = rng.randint(2, 5 if small else 8)
    labels = ["main"] + ["lbl%d" % i for i in range(1, nblocks)]
    blocks = []
    falls = set()
    for bi, label in enumerate(labels):
        items = []
        last = (bi == nblocks - 1)
        r = rng.random()
        if r < (0.06 if many_chains else 0.14) and bi > 0:
            # data block
            for _ in range(rng.randint(1, 3)):
                items.append(gen_data(arch, rng, labels))
            blocks.append((label, items))
            falls.add(label)
            continue
        for _ in range(rng.randint(0 if bi else 1, 3 if small else 4)):
            if arch.labelref and rng.random() < 0.25:
                tgt = rng.choice(labels)
                items.append(("ins", rng.choice(arch.labelref) % tgt, tgt))
            else:
                items.append(("ins", rng.choice(arch.plain), None))
        r = rng.random()
        kind = None
        if last:
            kind = "jmp" if r < 0.5 else "stop"
        elif many_chains and rng.random() < 0.6:
            kind = "jmp" if r < 0.6 else "stop"
        elif r < 0.30:
            kind = None if items else "cond"      # fall through into the next label
        elif r < 0.55:
            kind = "cond"
        elif r < 0.68:
            kind = "call"
        elif r < 0.86:
            kind = "jmp"
        else:
            kind = "stop"
        if kind in ("cond", "jmp", "call"):
            pool = getattr(arch, kind)
            tgt = rng.choice(labels)
            items.append(("ins", rng.choice(pool) % tgt, tgt))
        elif kind == "stop":
            items.append(("ins", rng.choice(arch.stop), None))
        if kind and arch.delay:
            items.append(("ins", rng.choice(arch.delay), None))
        if not items:
            items.append(("ins", rng.choice(arch.plain), None))
        if kind in (None, "cond", "call"):
            falls.add(label)
        blocks.append((label, items))
    return Program(arch, blocks, falls)


def gen_data(arch, rng, labels):
    r = rng.random()
    unit = arch.unit
    if r < 0.4:
        n = rng.randint(1, 3)
        spec, parts = [], []
        for _ in range(n):
            if rng.random() < 0.6:
                tgt = rng.choice(labels)
                spec.append(("label", tgt, 32))
                parts.append(tgt)
            else:
                v = rng.getrandbits(32)
                spec.append(("int", v, 32))
                parts.append("0x%x" % v)
        return ("data", ".long " + ", ".join(parts), spec)
    if r < 0.6:
        n = rng.randint(1, 2) * (2 // min(unit, 2)) * (2 if unit == 4 else 1)
        vals = [rng.getrandbits(16) for _ in range(n)]
        return ("data", ".word " + ", ".join("0x%x" % v for v in vals), [("int", v, 16) for v in vals])
    if r < 0.8:
        n = rng.randint(1, 4) * unit
        vals = [rng.getrandbits(8) for _ in range(n)]
        return ("data", ".byte " + ", ".join("0x%x" % v for v in vals), [("int", v, 8) for v in vals])
    # .string adds a NUL: choose the length so that the size is a multiple of the unit
    n = rng.randint(1, 3) * unit - 1
    txt = "".join(rng.choice("abcXYZ019 _") for _ in range(n))
    return ("data", '.string "%s"' % txt, [("bytes", txt.encode() + b"\x00")])


def data_bytes(spec, addr_of, big_ok):
    """expected encodings of a data item: list of acceptable byte strings"""
    outs = [b""] if not big_ok else [b"", b""]
    res = []
    for endian in (["<"] if not big_ok else ["<", ">"]):
        out = b""
        for el in spec:
            if el[0] == "bytes":
                out += el[1]
                continue
            val = addr_of[el[1]] if el[0] == "label" else el[1]
            size = el[2]
            out += struct.pack(endian + {8: "B", 16: "H", 32: "I", 64: "Q"}[size], val & ((1 << size) - 1))
        res.append(out)
    return res


def chains_of(cfg, ldb, prog):
    """fall-through structure as parsed: label -> next label (c_next), from the AsmCFG"""
    from miasm.core.asmblock import AsmConstraint
    nxt = {}
    name_of = {}
    for label, _ in prog.blocks:
        name_of[ldb.get_name_location(label)] = label
    for label, _ in prog.blocks:
        blk = cfg.loc_key_to_block(ldb.get_name_location(label))
        if blk is None:
            continue
        for c in blk.bto:
            if c.c_t == AsmConstraint.c_next and c.loc_key in name_of:
                nxt[label] = name_of[c.loc_key]
    heads = [l for l, _ in prog.blocks if l not in set(nxt.values())]
    chains = []
    for h in heads:
        ch, cur = [h], h
        while cur in nxt and nxt[cur] not in ch:
            cur = nxt[cur]
            ch.append(cur)
        chains.append(ch)
    return nxt, chains


def verify(prog, ldb, patches, pins, itv, nxt, fail, count):
    """All statement conditions on one successful assembly.  @fail(key, what) reports;
    returns the layout {label: address} or None when nothing can be said."""
    from miasm.core.locationdb import LocationDB
    from miasm.core.bin_stream import bin_stream_str
    from miasm.expression.expression import ExprInt
    arch = prog.arch
    mn, attrib = arch.mn, arch.attrib
    image = {}
    total = 0
    for off, data in patches.items():
        total += len(data)
        for i, byte in enumerate(bytes(data)):
            a = off + i
            if a in image:
                fail("patches overlap", "address %#x written twice" % a)
                return None
            image[a] = byte
            if itv is not None and not (itv[0] <= a <= itv[1]):
                fail("patch outside the destination interval",
                     "byte at %#x, interval [%#x, %#x]" % (a, itv[0], itv[1]))
                return None
    addr_of = {}
    for label, _ in prog.blocks:
        off = ldb.get_location_offset(ldb.get_name_location(label))
        if not isinstance(off, int):
            fail("label without final address", "label %s has offset %r" % (label, off))
            return None
        addr_of[label] = off
    for label, pin in pins.items():
        if addr_of[label] != pin:
            fail("pinned label moved", "label %s pinned at %#x ends at %#x" % (label, pin, addr_of[label]))
            return None
    ends = {}
    expected_total = 0
    for label, items in prog.blocks:
        cur = addr_of[label]
        for it in items:
            if it[0] == "data":
                cands = data_bytes(it[2], addr_of, arch.big)
                n = len(cands[0])
                got = bytes(image.get(cur + i, -1) & 0xFF if (cur + i) in image else 0 for i in range(n))
                if any((cur + i) not in image for i in range(n)):
                    fail("bytes of the program missing in the patches",
                         "data %r of block %s at %#x" % (it[1], label, cur))
                    return None
                if got not in cands:
                    kind = "label reference" if any(e[0] == "label" for e in it[2]) else "constant"
                    fail("data directive bytes differ (%s)" % kind,
                         "%r at %#x: got %s, expected %s" % (it[1], cur, got.hex(), cands[0].hex()))
                    return None
                count("data_items")
                cur += n
                expected_total += n
                continue
            # instruction: decode the image at cur
            avail = b""
            i = 0
            while (cur + i) in image and i < 16:
                avail += bytes([image[cur + i]])
                i += 1
            if not avail:
                fail("bytes of the program missing in the patches",
                     "instruction %r of block %s expected at %#x" % (it[1], label, cur))
                return None
            try:
                dec = mn.dis(bin_stream_str(avail, base_address=cur), attrib, cur)
            except Exception as exc:
                fail("image does not decode at an instruction address",
                     "%r expected at %#x, bytes %s: %r" % (it[1], cur, avail.hex(), exc))
                return None
            # the program's instruction with labels replaced by their final addresses
            l2 = LocationDB()
            for lab, a in addr_of.items():
                l2.add_location(lab, a)
            exp = mn.fromstring(it[1], l2, attrib)
            exp_args = [subst_locs(a, l2) for a in exp.args]
            l3 = LocationDB()
            if dec.dstflow():
                dec.dstflow2label(l3)
            dec_args = [subst_locs(a, l3) for a in dec.args]
            same = (dec.name == exp.name and len(dec_args) == len(exp_args) and
                    all(int_eq(x, y) for x, y in zip(dec_args, exp_args)))
            if not same:
                kind = "label reference" if it[2] else "no label"
                fail("decoded instruction differs from the program (%s)" % kind,
                     "block %s at %#x: program %r (%s), image decodes to %s %s" % (
                         label, cur, it[1], [str(a) for a in exp_args], dec.name,
                         [str(a) for a in dec_args]))
                return None
            count("instr_checked")
            if it[2]:
                count("label_refs_checked")
            cur += dec.l
            expected_total += dec.l
        ends[label] = cur
    links = dict(nxt)
    for a, b in prog.required_links().items():
        if nxt.get(a) != b:
            fail("parse_txt does not link a block to its fall-through successor",
                 "block %s runs into %s in the source, the AsmCFG links it to %r" % (a, b, nxt.get(a)))
            return None
        links[a] = b
    for a, b in links.items():
        if a in ends and ends[a] != addr_of[b]:
            fail("fall-through blocks not contiguous",
                 "block %s ends at %#x, its fall-through %s is at %#x" % (a, ends[a], b, addr_of[b]))
            return None
        count("fallthrough_checked")
    if total != expected_total:
        fail("patches hold bytes that are not the program",
             "patches have %d bytes, the program %d" % (total, expected_total))
        return None
    return addr_of, ends


def subst_locs(expr, ldb):
    from miasm.expression.expression import ExprInt

    def cb(e):
        if e.is_loc():
            return ExprInt(ldb.get_location_offset(e.loc_key), e.size)
        return e
    return expr.visit(cb)


def int_eq(a, b):
    """argument equality; integers are compared modulo the smaller width (a decoded branch
    target and a parsed label may carry different widths)"""
    if a == b:
        return True
    if a.is_int() and b.is_int():
        m = (1 << min(a.size, b.size)) - 1
        return (int(a) & m) == (int(b) & m)
    from miasm.expression.simplifications import expr_simp
    return expr_simp(a) == expr_simp(b)
