"""Shadow model of the VM manager for C24: a map address -> byte with per-page
permissions, memory breakpoints, byte order, and the sets of bytes read/written
since the last reset.  Shares no code with miasm.

Addresses are 64-bit; address arithmetic of an access wraps modulo 2**64.
"""

M64 = (1 << 64) - 1
TOP = 1 << 64

PAGE_READ = 1
PAGE_WRITE = 2
BP_READ = 1
BP_WRITE = 2


class Page(object):
    __slots__ = ("ad", "size", "access", "data")

    def __init__(self, ad, size, access, data):
        self.ad = ad
        self.size = size
        self.access = access
        self.data = bytearray(data)

    @property
    def end(self):           # exclusive, as a big int (may be 2**64)
        return self.ad + self.size


class VmModel(object):
    def __init__(self, big_endian=False):
        self.pages = []      # non-empty pages
        self.zpages = []     # addresses of accepted zero-sized pages
        self.big_endian = big_endian
        self.bps = []        # (ad, size, access)
        # bytes accessed since the last reset: "must" = accesses that certainly count
        # (completed emulated accesses), "may" = must + accesses whose recording the
        # statement leaves open (faulting attempts, host writes)
        self.r_must, self.r_may = set(), set()
        self.w_must, self.w_may = set(), set()
        # addresses of zero-length host writes: the manager records an empty range for them;
        # whether an empty range "overlaps" a breakpoint is left open
        self.w_points = []

    # ---- pages
    def find(self, addr):
        for p in self.pages:
            if p.ad <= addr < p.end:
                return p
        return None

    def overlapping(self, ad, size):
        return [p for p in self.pages if p.ad < ad + size and ad < p.end] if size else []

    def zero_involved(self, ad, size):
        """a zero-sized page lies in [ad, ad+size] (closed) or the new page is empty"""
        if size == 0:
            return True
        return any(ad <= z <= ad + size for z in self.zpages)

    def add_page(self, ad, access, data):
        if len(data) == 0:
            self.zpages.append(ad)
        else:
            self.pages.append(Page(ad, len(data), access, data))
            self.pages.sort(key=lambda p: p.ad)

    def remove_page(self, addr):
        p = self.find(addr)
        if p is not None:
            self.pages.remove(p)
        return p

    # ---- bytes
    @staticmethod
    def span(addr, n):
        return [(addr + i) & M64 for i in range(n)]

    def byte(self, a):
        p = self.find(a)
        return None if p is None else p.data[a - p.ad]

    def set_byte(self, a, v):
        p = self.find(a)
        p.data[a - p.ad] = v

    def all_mapped(self, addr, n):
        if n <= 16:
            return all(self.find(a) is not None for a in self.span(addr, n))
        # long ranges: walk page by page
        done = 0
        while done < n:
            a = (addr + done) & M64
            p = self.find(a)
            if p is None:
                return False
            done += min(n - done, p.end - a)
        return True

    def read(self, addr, n):
        out = bytearray()
        done = 0
        while done < n:
            a = (addr + done) & M64
            p = self.find(a)
            k = min(n - done, p.end - a)
            out += p.data[a - p.ad:a - p.ad + k]
            done += k
        return bytes(out)

    def write(self, addr, data):
        done = 0
        n = len(data)
        while done < n:
            a = (addr + done) & M64
            p = self.find(a)
            k = min(n - done, p.end - a)
            p.data[a - p.ad:a - p.ad + k] = data[done:done + k]
            done += k

    def order(self):
        return "big" if self.big_endian else "little"

    def statuses(self, addr, n, need):
        """per touched byte: 'ok' | 'unmapped' | 'noperm'"""
        out = []
        for a in self.span(addr, n):
            p = self.find(a)
            if p is None:
                out.append("unmapped")
            elif not (p.access & need):
                out.append("noperm")
            else:
                out.append("ok")
        return out

    def npages(self, addr, n):
        seen = []
        for a in self.span(addr, n):
            p = self.find(a)
            if p is not None and p not in seen:
                seen.append(p)
        return seen

    # ---- breakpoints
    def add_bp(self, ad, size, access):
        self.bps.append((ad, size, access))

    def remove_bp(self, ad, access):
        self.bps = [b for b in self.bps if not (b[0] == ad and b[2] == access)]

    def bp_hits(self, rbytes, wbytes):
        for ad, size, access in self.bps:
            if access & BP_READ and rbytes:
                if any(ad <= a < ad + size for a in rbytes):
                    return True
            if access & BP_WRITE and wbytes:
                if any(ad <= a < ad + size for a in wbytes):
                    return True
        return False

    # ---- access sets
    def reset_access(self):
        self.r_must, self.r_may = set(), set()
        self.w_must, self.w_may = set(), set()
        self.w_points = []

    def point_hits(self):
        return any(access & BP_WRITE and ad < a < ad + size
                   for ad, size, access in self.bps for a in self.w_points)

    def resync_access(self, robs, wobs):
        self.w_points = []
        self.r_must, self.r_may = set(robs), set(robs)
        self.w_must, self.w_may = set(wobs), set(wobs)


def ranges_to_bytes(ranges, limit=1 << 16):
    """[(start, stop)] as recorded by the manager -> set of byte addresses
    (stop exclusive; a range with stop <= start wraps modulo 2**64).
    Returns None when a range is absurdly long (reported by the caller)."""
    out = set()
    for start, stop in ranges:
        n = (stop - start) & M64
        if n > limit:
            return None
        for i in range(n):
            out.add((start + i) & M64)
    return out
