"""Generator and helpers of C39 (dependency graph slices).

The dependency graph tracks memory *syntactically*: a pending @32[ESP + 4] is
resolved only by a store written exactly like that.  The generator therefore
keeps the discipline under which syntactic identity is cell identity:
  * every memory access is one machine word wide and goes through
    'pointer register + k * word' or a fixed word-aligned address;
  * pointer registers are never assigned;
  * initial states put the pointer registers >= 2^20 apart (vf.irgen.initial_state);
  * one *derived* pointer (EBX/RBX) is assigned exactly once, in the first line of the head, to
    'pointer register + 0x1000 + (data & word-aligned mask)': accesses through it are word aligned,
    disjoint from every other region, and their address depends on data -- so that the address
    dependencies of a tracked memory cell matter -- yet the same text still names the same cell
    during one run.
Graphs are loop free (edges go forward only)."""
from miasm.expression.expression import ExprInt, ExprMem, ExprSlice, ExprOp
from miasm.ir.ir import AssignBlock, IRBlock

from vf import irgen


class DGGen(irgen.IRGen):
    def __init__(self, rng, ctx):
        super(DGGen, self).__init__(rng, ctx, mem=True, calls=False, div=False)
        self.word = ctx.bits // 8
        self.derived = ctx.gpr[1]          # EBX / RBX
        self.derived_ready = False
        self.pure = [g for g in ctx.gpr if g not in ctx.ptrs and g is not self.derived]

    def value(self, n, depth):
        # a modelled call (what LifterModelCall emits for CALL: ret = call_func_ret(addr, sp)): an
        # uninterpreted operator whose arguments are sources like any other
        if depth >= 1 and self.rng.random() < 0.08:
            c = ExprOp("call_func_ret", self.value(self.bits, depth - 1), self.value(self.bits, 0))
            if n == self.bits:
                return c
            return ExprSlice(c, 0, n) if n < self.bits else c.zeroExtend(n)
        return super(DGGen, self).value(n, depth)

    def derived_init(self):
        """AssignBlock giving the derived pointer its only value"""
        r = self.rng
        base = r.choice(self.ctx.ptrs)
        data = r.choice(self.pure)
        mask = ExprInt(3 * self.word, self.bits)       # 0, 1, 2 or 3 words
        return AssignBlock({self.derived: base + ExprInt(0x1000, self.bits) + (data & mask)})

    def ptr(self):
        r = self.rng
        if r.random() < 0.15:
            return ExprInt(0x5000 + self.word * r.randrange(0, 4), self.bits)
        if self.derived_ready and r.random() < 0.3:
            base = self.derived
        else:
            base = r.choice(self.ctx.ptrs)
        k = r.choice([0, 0, 1, 1, 2, -1, -1, -2])
        if k == 0:
            return base
        return base + ExprInt(k * self.word, self.bits)

    def memread(self, n):
        m = ExprMem(self.ptr(), self.bits)
        if n == self.bits:
            return m
        if n < self.bits:
            return ExprSlice(m, 0, n)
        return m.zeroExtend(n)

    def dst_reg(self, allow_sp=True):
        return self.rng.choice(self.pure + self.pure + self.ctx.flags)

    def reg(self, n):
        # values may read the pointer registers, destinations never are
        return super(DGGen, self).reg(n)

    def assignblk(self, depth=2, with_mem=True, n_assign=None):
        r = self.rng
        n_assign = n_assign or r.choice([1, 1, 2, 2, 3])
        assigns = {}
        pure_gpr = self.pure
        if r.random() < 0.12 and len(pure_gpr) >= 2:
            a, b = r.sample(pure_gpr, 2)
            assigns[a] = b
            assigns[b] = a + ExprInt(1, a.size) if r.random() < 0.5 else a
        for _ in range(n_assign):
            if with_mem and r.random() < 0.3:
                if any(d.is_mem() for d in assigns):
                    continue
                dst = ExprMem(self.ptr(), self.bits)
            else:
                dst = self.dst_reg()
            if dst in assigns:
                continue
            assigns[dst] = self.value(dst.size, depth)
        if not assigns:
            d = r.choice(pure_gpr)
            assigns[d] = self.value(d.size, depth)
        return AssignBlock(assigns)


def gen_dag(rng):
    """-> succs: list per block of 1..2 targets (later block index or 'exit'); block 0 is the head and
    reaches every block (each block k > 0 gets its first incoming edge from an earlier block with a
    free slot; further forward edges create the joins)"""
    n = rng.choice([1, 2, 3, 3, 4, 4, 4, 5, 5, 6, 6])
    succs = [[] for _ in range(n)]
    for k in range(1, n):
        cands = [p for p in range(k) if len(succs[p]) < 2]
        p = rng.choice(cands[-2:]) if rng.random() < 0.7 else rng.choice(cands)
        succs[p].append(k)
    for k in range(n):
        later = [t for t in range(k + 1, n) if t not in succs[k]]
        while len(succs[k]) < 2 and rng.random() < (0.6 if succs[k] else 1.0):
            if later and rng.random() < 0.7:
                t = rng.choice(later)
                later.remove(t)
            elif "exit" not in succs[k]:
                t = "exit"
            else:
                break
            succs[k].append(t)
    for s_ in succs:
        rng.shuffle(s_)
    return succs


def build(rng, ctx, gen, succs):
    """-> (ircfg, locs)"""
    n = len(succs)
    locs = [ctx.loc_db.add_location() for _ in range(n)]
    exits = [ctx.loc_db.add_location() for _ in range(2)]
    ircfg = gen.new_ircfg()
    gen.derived_ready = False
    for b in range(n):
        tl = []
        for t in succs[b]:
            tl.append(locs[t] if t != "exit" else exits[len(tl) % 2])
        if b == 0:
            first = gen.derived_init()
            gen.derived_ready = True
            rest = gen.block(locs[b], tl, depth=rng.choice([1, 1, 2]))
            blk = IRBlock(ctx.loc_db, locs[b], [first] + list(rest))
        else:
            blk = gen.block(locs[b], tl, depth=rng.choice([1, 1, 2]))
        ircfg.add_irblock(blk)
    return ircfg, locs


def truncated(block, line_nb, loc_db):
    """the first @line_nb assignblocks of @block as a block of their own"""
    return IRBlock(loc_db, block.loc_key, list(block)[:line_nb])


# ------------------------------------------------------------------ lifted loop-free x86 code

ASM_REGS = ["EAX", "ECX", "EDX", "EBX"]
ASM_REGS8 = ["AL", "CL", "DL", "BL"]
ASM_CC = ["Z", "NZ", "B", "AE", "S", "NS", "L", "GE", "LE", "G", "BE", "A", "O", "NO"]


def asm_mem(rng):
    base = rng.choice(["EBP", "EBP", "ESI", "EDI"])
    k = rng.choice([1, 2, 3, -1, -2])
    if k > 0:
        return "DWORD PTR [%s + 0x%X]" % (base, 4 * k)
    return "DWORD PTR [%s - 0x%X]" % (base, -4 * k)


def asm_line(rng):
    r = rng
    k = r.random()
    a, b = r.choice(ASM_REGS), r.choice(ASM_REGS)
    imm = "0x%X" % r.choice([0, 1, 2, 3, 0x7F, 0x80, 0xFF, 0x1234, 0x7FFFFFFF, 0x80000000, 0xFFFFFFFF])
    if k < 0.2:
        return "MOV %s, %s" % (a, r.choice([b, imm, asm_mem(r)]))
    if k < 0.3:
        return "MOV %s, %s" % (asm_mem(r), a)
    if k < 0.55:
        return "%s %s, %s" % (r.choice(["ADD", "SUB", "XOR", "AND", "OR", "ADC", "SBB"]), a,
                              r.choice([b, b, imm, asm_mem(r)]))
    if k < 0.62:
        return "%s %s" % (r.choice(["INC", "DEC", "NEG", "NOT"]), a)
    if k < 0.7:
        return "%s %s, 0x%X" % (r.choice(["SHL", "SHR", "SAR", "ROL"]), a, r.choice([1, 3, 8, 31]))
    if k < 0.8:
        return "%s %s, %s" % (r.choice(["CMP", "TEST"]), a, r.choice([b, imm]))
    if k < 0.86:
        return "CMOV%s %s, %s" % (r.choice(ASM_CC), a, b)
    if k < 0.9:
        return "SET%s %s" % (r.choice(ASM_CC), r.choice(ASM_REGS8))
    if k < 0.95:
        return "LEA %s, DWORD PTR [%s + %s]" % (a, b, r.choice(ASM_REGS))
    return "MOVZX %s, %s" % (a, r.choice(ASM_REGS8))


def gen_asm(rng):
    """loop-free x86_32 text: forward conditional jumps only, no push/pop/call, ESP/EBP/ESI/EDI never
    written before the final RET, dword memory operands at word-aligned offsets of EBP/ESI/EDI"""
    nseg = rng.choice([1, 2, 2, 3, 3, 4])
    lines = ["main:"]
    for seg in range(nseg):
        if seg:
            lines.append("lbl%d:" % seg)
        for _ in range(rng.choice([1, 2, 3, 4])):
            lines.append("   " + asm_line(rng))
        later = list(range(seg + 1, nseg))
        if later and rng.random() < 0.8:
            if rng.random() < 0.5:
                lines.append("   %s %s, %s" % (rng.choice(["CMP", "TEST"]), rng.choice(ASM_REGS), rng.choice(ASM_REGS)))
            lines.append("   J%s lbl%d" % (rng.choice(ASM_CC), rng.choice(later)))
            if rng.random() < 0.15 and len(later) > 1:
                lines.append("   JMP lbl%d" % rng.choice(later))
    lines.append("   RET")
    return "\n".join(lines) + "\n"


def lift_asm(text):
    """-> (ctx, ircfg, head) through the repository's own route (example/expression/asm_to_ir.py)"""
    from miasm.arch.x86.arch import mn_x86
    from miasm.core import parse_asm, asmblock
    ctx = irgen.Ctx("x86_32")
    asmcfg = parse_asm.parse_txt(mn_x86, 32, text, ctx.loc_db)
    head = ctx.loc_db.get_name_location("main")
    ctx.loc_db.set_location_offset(head, 0x1000)
    asmblock.asm_resolve_final(mn_x86, asmcfg)
    ircfg = ctx.lifter_model_call.new_ircfg_from_asmcfg(asmcfg)
    return ctx, ircfg, head
