"""Shared by C04/C05/C06 (expression translators checked against refsem):
operator kinds, valuations biased toward the boundary cases named by the
properties, condition classes for mechanism keys, localisation of a wrong
translation to the smallest failing sub-expression."""
from miasm.expression.expression import (ExprInt, ExprId, ExprLoc, ExprMem, ExprOp,
                                         ExprSlice, ExprCompose, ExprCond)

from vf import refsem
from vf.exprgen import boundary_values

DIV_OPS = ('/', '%', 'udiv', 'umod', 'sdiv', 'smod')
SHIFT_OPS = ('>>', '<<', 'a>>')
ROT_OPS = ('<<<', '>>>')
CNT_OPS = ('cntleadzeros', 'cnttrailzeros')


def kind(e):
    """operation kind of a node (operator name without the size suffix)"""
    if e.is_op():
        op = e.op
        if op.startswith("zeroExt_"):
            return "zeroExt"
        if op.startswith("signExt_"):
            return "signExt"
        if op == '-' and len(e.args) == 1:
            return "neg"
        return op
    return e.__class__.__name__[4:]


def children(e):
    if e.is_op() or e.is_compose():
        return list(e.args)
    if e.is_slice():
        return [e.arg]
    if e.is_mem():
        return [e.ptr]
    if e.is_cond():
        return [e.cond, e.src1, e.src2]
    return []


def is_leaf(e):
    return e.is_int() or e.is_id() or e.is_loc()


def subexprs(e):
    """distinct non-leaf nodes, children before parents"""
    out, seen = [], set()

    def walk(x):
        if x in seen or is_leaf(x):
            return
        seen.add(x)
        for c in children(x):
            walk(c)
        out.append(x)
    walk(e)
    return out


def kinds_in(e):
    return sorted(set(kind(x) for x in subexprs(e)))


def collect_ids(e):
    out = set()

    def cb(x):
        if x.is_id():
            out.add(x)
        return x
    e.visit(cb)
    return sorted(out, key=lambda x: (x.name, x.size))


def draw_value(rng, n):
    """boundary values (0, 1, INT_MIN, INT_MAX, -1, 2^k+-1), small values usable
    as shift/rotation counts below and above the width, random values"""
    p = rng.random()
    if p < 0.40:
        return rng.choice(boundary_values(n))
    if p < 0.62:
        return rng.randrange(0, 2 * n + 2) & ((1 << n) - 1)
    if p < 0.70:
        # a few high bits set: negative numbers close to zero
        return ((1 << n) - 1 - rng.randrange(0, 2 * n + 2)) & ((1 << n) - 1)
    return rng.getrandbits(n)


def make_env(e, rng, seed, big_endian=False, zero=False):
    vals = {}
    for i in collect_ids(e):
        vals[i] = 0 if zero else draw_value(rng, i.size)
    return refsem.Env(ids=vals, seed=seed, big_endian=big_endian)


def clone_env(env):
    return refsem.Env(ids=dict(env.ids), seed=env.seed, mem=dict(env.mem),
                      big_endian=env.big_endian)


def mem_cells(env):
    """{(ptr_size, wrapped address): byte} for every byte refsem read"""
    cells = {}
    for addr, nbytes, psize in env.reads:
        m = (1 << psize) - 1
        for j in range(nbytes):
            a = (addr + j) & m
            cells[(psize, a)] = env.byte(a)
    return cells


def _sign(v, n):
    return '-' if v >> (n - 1) else '+'


def cond_class(node, env):
    """condition class of the operands of @node under @env: the part of a
    finding key that says *when* the mechanism fails"""
    k = kind(node)
    try:
        if node.is_op():
            n = node.args[0].size
            vals = [refsem.evaluate(a, clone_env(env)) for a in node.args]
            if k in ('sdiv', 'smod'):
                a, b = vals[:2]
                if a == 1 << (n - 1) and n > 1:
                    return "dividend=INT_MIN"
                return "signs=%s%s" % (_sign(a, n), _sign(b, n))
            if k in DIV_OPS:
                a, b = vals[:2]
                return "top_bit_set" if (a >> (n - 1)) or (b >> (n - 1)) else "top_bit_clear"
            if k in SHIFT_OPS:
                return "count>=size" if vals[1] >= n else "count<size"
            if k in ROT_OPS:
                c = vals[1]
                w = "pow2" if n & (n - 1) == 0 else "nonpow2"
                if c == 0:
                    return "width=%s count=0" % w
                return "width=%s %s" % (w, "count>=size" if c >= n else "count<size")
            if k in CNT_OPS:
                a = vals[0]
                return "arg=0" if a == 0 else ("arg=1" if a == 1 else "arg>1")
            if k == 'parity':
                return "width<8" if n < 8 else "width>=8"
            return ""
        if node.is_mem():
            if node.size % 8:
                s = "unaligned-size"
            elif node.size == 8:
                s = "single-byte"
            else:
                s = "multi-byte"
            return "%s-endian %s" % ("big" if env.big_endian else "little", s)
    except (refsem.Undef, refsem.Unsupported):
        return "undef-operand"
    return ""


def minimal_failing(e, ok):
    """@ok: dict node -> True (agrees) / False (fails) / None (not decided).
    Returns the failing nodes none of whose children fail."""
    out = []
    for node in subexprs(e):
        if ok.get(node) is not False:
            continue
        if any(ok.get(c) is False for c in children(node)):
            continue
        out.append(node)
    return out


def env_repr(env):
    return dict(ids={str(k): hex(v) for k, v in sorted(env.ids.items(), key=lambda kv: str(kv[0]))},
                mem_seed=env.seed, big_endian=env.big_endian,
                mem={"%d:0x%x" % k: v for k, v in sorted(mem_cells(env).items())})


# ---------------------------------------------------------------- generators
from vf import exprgen  # noqa: E402

ASSOC_OPS = ['+', '*', '^', '&', '|']
CMP_OPS = ['==', '<u', '<s', '<=u', '<=s']
BASE_OPS = (ASSOC_OPS + ['-', 'neg'] + list(SHIFT_OPS) + list(ROT_OPS) + list(DIV_OPS) +
            list(CNT_OPS) + ['parity'] + CMP_OPS + ['zeroExt', 'signExt'])
STRUCT_KINDS = ['Slice', 'Compose', 'Cond', 'Mem']


def gen_ops(ops):
    """operator set in the vocabulary of exprgen.Gen(ops=...)"""
    out = set(ops)
    if 'neg' in out:
        out.add('-')
    return out


def op_case(g, k, n, d, mem_sizes=(8, 16, 32, 64)):
    """an expression whose root is of kind @k on operands of width @n (result
    width follows from the operator); sub-trees of depth @d"""
    r = g.rng
    x = lambda w=n: g.expr(w, d)  # noqa: E731
    if k in ASSOC_OPS:
        return ExprOp(k, *[x() for _ in range(2 if r.random() < 0.8 else 3)])
    if k == 'neg':
        return ExprOp('-', x())
    if k == '-':
        return ExprOp('-', x(), x())
    if k in SHIFT_OPS or k in ROT_OPS:
        p = r.random()
        if p < 0.45:
            cnt = g.small_int(n)
        elif p < 0.6:
            cnt = ExprInt(r.choice([0, n, 2 * n, 3 * n, n - 1, n + 1]) & ((1 << n) - 1), n)
        else:
            cnt = x()
        return ExprOp(k, x(), cnt)
    if k in DIV_OPS:
        m = (1 << n) - 1
        p = r.random()
        a, b = x(), x()
        if p < 0.15:
            a = ExprInt(1 << (n - 1), n)
        if 0.1 < p < 0.3:
            b = ExprInt(r.choice([m, 1, 2 & m or 1, m - 1 or 1, (1 << (n - 1))]), n)
        return ExprOp(k, a, b)
    if k in CNT_OPS:
        p = r.random()
        if p < 0.15:
            return ExprOp(k, ExprInt(r.choice([0, 1, 1 << (n - 1), (1 << n) - 1]), n))
        if p < 0.3:
            return ExprOp(k, ExprOp('&', x(), ExprInt(1 << r.randrange(n), n)))
        return ExprOp(k, x())
    if k == 'parity':
        return ExprOp(k, x())
    if k in CMP_OPS:
        return ExprOp(k, x(), x() if r.random() < 0.6 else g.int_(n))
    if k in ('zeroExt', 'signExt'):
        tw = r.choice([w for w in g.widths if w > n] or [n + 1])
        if tw > g.max_width:
            return None
        return ExprOp('%s_%d' % (k, tw), x())
    if k == 'Slice':
        m = r.choice([w for w in g.widths if w > n] or [n + 1])
        if m > g.max_width:
            return None
        s = r.choice([0, m - n, r.randrange(0, m - n + 1)])
        return ExprSlice(x(m), s, s + n)
    if k == 'Compose':
        return g._try(0.8, n, d + 1)
    if k == 'Cond':
        return ExprCond(x(g.width()), x(), x())
    if k == 'Mem':
        pw = r.choice(g.ptr_widths)
        size = r.choice(mem_sizes)
        return ExprMem(g.expr(pw, min(d, 2)), size)
    if k in ('bcdadd', 'bcdadd_cf'):
        def bcd():
            return ExprInt(sum(r.randrange(10) << (4 * i) for i in range(4)), 16)
        a = bcd()
        b = bcd()
        if r.random() < 0.5:
            b = ExprCond(g.expr(1, d), bcd(), bcd())
        return ExprOp(k, a, b)
    return None
