"""C19: generator of UB-free C functions built from a catalogue of named
operations (straight-line SSA-like statements, some of them containing
branches or bounded loops).

Every function has the signature

    uint32_t|uint64_t fN(uint32_t a, uint32_t b, uint32_t c, struct S *m)

All arithmetic is done on uint32_t / uint64_t (never on promoted narrow
types), shift counts are masked, divisors are guarded, signed operations go
through explicit casts whose behaviour is the same in gcc and clang.  A
statement can be *disabled* (replaced by a copy of a parameter): this is what
the reducer of the check uses to name the operation behind a disagreement.
"""

HEADER = r'''
typedef unsigned char uint8_t;
typedef signed char int8_t;
typedef unsigned short uint16_t;
typedef short int16_t;
typedef unsigned int uint32_t;
typedef int int32_t;
typedef unsigned long long uint64_t;
typedef long long int64_t;
struct S { uint64_t q[8]; uint32_t w[16]; uint16_t h[16]; uint8_t b[32]; };
'''

# layout of struct S (identical on every target: natural alignment, no padding)
S_LAYOUT = [("q", 8, 8, 0), ("w", 4, 16, 64), ("h", 2, 16, 128), ("b", 1, 32, 160)]
S_SIZE = 192


class Op(object):
    def __init__(self, name, ty, nargs, tmpl, argty=None, only64=False, lits=0):
        self.name = name
        self.ty = ty                  # result type: 32 or 64
        self.nargs = nargs
        self.tmpl = tmpl              # uses {0} {1} {2}: operands, {k0} {k1}: literals, {r}: result var
        self.argty = argty or [ty] * nargs
        self.only64 = only64          # needs a 64-bit target (would call libgcc on 32-bit ones)
        self.lits = lits


OPS = []


def op(*a, **k):
    OPS.append(Op(*a, **k))


# ---- 32-bit arithmetic / logic
op("add32", 32, 2, "{r} = {0} + {1};")
op("sub32", 32, 2, "{r} = {0} - {1};")
op("mul32", 32, 2, "{r} = {0} * {1};")
op("and32", 32, 2, "{r} = {0} & {1};")
op("or32", 32, 2, "{r} = {0} | {1};")
op("xor32", 32, 2, "{r} = {0} ^ {1};")
op("andn32", 32, 2, "{r} = {0} & ~{1};")
op("orn32", 32, 2, "{r} = {0} | ~{1};")
op("not32", 32, 1, "{r} = ~{0};")
op("neg32", 32, 1, "{r} = 0u - {0};")
op("addi32", 32, 1, "{r} = {0} + {k0}u;", lits=1)
op("subi32", 32, 1, "{r} = {k0}u - {0};", lits=1)
op("andi32", 32, 1, "{r} = {0} & {k0}u;", lits=1)
op("xori32", 32, 1, "{r} = {0} ^ {k0}u;", lits=1)
op("muli32", 32, 1, "{r} = {0} * {k0}u;", lits=1)
op("mla32", 32, 3, "{r} = {0} * {1} + {2};")
op("mls32", 32, 3, "{r} = {2} - {0} * {1};")
op("shl32", 32, 2, "{r} = {0} << ({1} & 31);")
op("shr32", 32, 2, "{r} = {0} >> ({1} & 31);")
op("sar32", 32, 2, "{r} = (uint32_t)((int32_t){0} >> ({1} & 31));")
op("shli32", 32, 1, "{r} = {0} << {s0};", lits=1)
op("shri32", 32, 1, "{r} = {0} >> {s0};", lits=1)
op("sari32", 32, 1, "{r} = (uint32_t)((int32_t){0} >> {s0});", lits=1)
op("rotl32", 32, 2, "{r} = ({0} << ({1} & 31)) | ({0} >> ((0u - {1}) & 31));")
op("rotr32", 32, 2, "{r} = ({0} >> ({1} & 31)) | ({0} << ((0u - {1}) & 31));")
op("rotri32", 32, 1, "{r} = ({0} >> {s0}) | ({0} << (32 - {s0}));", lits=1)
op("addshl32", 32, 2, "{r} = {0} + ({1} << {s0});", lits=1)
op("subshr32", 32, 2, "{r} = {0} - ({1} >> {s0});", lits=1)
op("xorsar32", 32, 2, "{r} = {0} ^ (uint32_t)((int32_t){1} >> {s0});", lits=1)
op("bswap32", 32, 1, "{r} = __builtin_bswap32({0});")
op("bswap16", 32, 1, "{r} = (uint32_t)__builtin_bswap16((uint16_t){0});")
op("clz32", 32, 1, "{r} = {0} ? (uint32_t)__builtin_clz({0}) : 32u;")
op("ctz32", 32, 1, "{r} = {0} ? (uint32_t)__builtin_ctz({0}) : 32u;")
op("udiv32", 32, 2, "{r} = {1} ? {0} / {1} : {0};")
op("urem32", 32, 2, "{r} = {1} ? {0} % {1} : {0};")
op("sdiv32", 32, 2, "{r} = ({1} == 0u || ({0} == 0x80000000u && {1} == 0xffffffffu)) ? {0} : "
                    "(uint32_t)((int32_t){0} / (int32_t){1});")
op("srem32", 32, 2, "{r} = ({1} == 0u || ({0} == 0x80000000u && {1} == 0xffffffffu)) ? {1} : "
                    "(uint32_t)((int32_t){0} % (int32_t){1});")
op("udivi32", 32, 1, "{r} = {0} / {d0}u;", lits=1)
op("sdivi32", 32, 1, "{r} = (uint32_t)((int32_t){0} / {d0});", lits=1)
op("umulhi32", 32, 2, "{r} = (uint32_t)(((uint64_t){0} * (uint64_t){1}) >> 32);")
op("smulhi32", 32, 2, "{r} = (uint32_t)((uint64_t)((int64_t)(int32_t){0} * (int64_t)(int32_t){1}) >> 32);")
op("sext8", 32, 1, "{r} = (uint32_t)(int32_t)(int8_t)(uint8_t){0};")
op("sext16", 32, 1, "{r} = (uint32_t)(int32_t)(int16_t)(uint16_t){0};")
op("zext8", 32, 1, "{r} = (uint32_t)(uint8_t){0};")
op("zext16", 32, 1, "{r} = (uint32_t)(uint16_t){0};")
op("ubfx32", 32, 1, "{r} = ({0} >> {l0}) & {m0}u;", lits=1)
op("sbfx32", 32, 1, "{r} = (uint32_t)((int32_t)({0} << {hl0}) >> {hr0});", lits=1)
op("bfi32", 32, 2, "{r} = ({0} & ~({m0}u << {l0})) | (({1} & {m0}u) << {l0});", lits=1)
op("bfc32", 32, 1, "{r} = {0} & ~({m0}u << {l0});", lits=1)
op("sel_ltu32", 32, 4, "{r} = {0} < {1} ? {2} : {3};")
op("sel_lts32", 32, 4, "{r} = (int32_t){0} < (int32_t){1} ? {2} : {3};")
op("sel_les32", 32, 4, "{r} = (int32_t){0} <= (int32_t){1} ? {2} : {3};")
op("sel_geu32", 32, 4, "{r} = {0} >= {1} ? {2} : {3};")
op("sel_eq32", 32, 4, "{r} = {0} == {1} ? {2} : {3};")
op("sel_nz32", 32, 3, "{r} = {0} ? {1} : {2};")
op("sel_bit32", 32, 3, "{r} = ({0} & {b0}u) ? {1} : {2};", lits=1)
op("setltu32", 32, 2, "{r} = (uint32_t)({0} < {1});")
op("setlts32", 32, 2, "{r} = (uint32_t)((int32_t){0} < (int32_t){1});")
op("seteq32", 32, 2, "{r} = (uint32_t)({0} == {1});")
op("setgti32", 32, 1, "{r} = (uint32_t)((int32_t){0} > (int32_t){k0}u);", lits=1)
op("minu32", 32, 2, "{r} = {0} < {1} ? {0} : {1};")
op("maxs32", 32, 2, "{r} = (int32_t){0} > (int32_t){1} ? {0} : {1};")
op("abs32", 32, 1, "{r} = (int32_t){0} < 0 ? 0u - {0} : {0};")
op("satadd32", 32, 2, "{r} = {0} + {1}; if ({r} < {0}) {r} = 0xffffffffu;")
op("satsub32", 32, 2, "{r} = {0} - {1}; if ({0} < {1}) {r} = 0u;")
op("ssat32", 32, 2, "{{ int64_t t_ = (int64_t)(int32_t){0} + (int64_t)(int32_t){1}; "
                    "if (t_ > 2147483647ll) t_ = 2147483647ll; if (t_ < -2147483648ll) t_ = -2147483648ll; "
                    "{r} = (uint32_t)(int32_t)t_; }}")
op("addc32", 32, 3, "{r} = (uint32_t)((({0} + {1}) < {0}) + {2});")
op("ovf_add32", 32, 2, "{r} = (uint32_t)(((~({0} ^ {1})) & ({0} ^ ({0} + {1}))) >> 31);")
op("parity32", 32, 1, "{r} = {0} ^ ({0} >> 16); {r} ^= {r} >> 8; {r} ^= {r} >> 4; {r} = (0x6996u >> ({r} & 15)) & 1u;")
# ---- branches and loops
op("if_chain", 32, 3, "if ((int32_t){0} < 0) {r} = {1} + 0x1234u; else if ({0} & 1u) {r} = {2} ^ {0}; "
                      "else if ({0} > {1}) {r} = {0} - {1}; else {r} = {2} * 3u;")
op("if_nested", 32, 3, "{r} = {2}; if ({0} != {1}) {{ if ((int32_t){0} > (int32_t){1}) {r} += {0}; else {r} -= {1}; }} "
                       "if (({r} & 0xffu) == 0u) {r} |= 1u;")
op("loop_mul", 32, 2, "{r} = {1}; for (uint32_t i_ = 0; i_ < ({0} & 15u) + 1u; i_++) {r} = {r} * 31u + ({0} ^ i_);")
op("loop_shift", 32, 2, "{r} = 0u; for (uint32_t t_ = {0}; t_ != 0u && {r} < 40u; t_ >>= ({1} & 3u) + 1u) {r}++;")
op("loop_break", 32, 2, "{r} = {0}; for (uint32_t i_ = 0; i_ < 24u; i_++) {{ if (({r} & 7u) == ({1} & 7u)) break; "
                        "{r} = ({r} >> 1) ^ (({r} & 1u) ? 0xedb88320u : 0u); }}")
op("loop_mem", 32, 2, "{r} = {1}; for (uint32_t i_ = 0; i_ <= ({0} & 7u); i_++) {r} += m->w[i_ + ({0} >> 29)];")
op("loop_down", 32, 2, "{r} = 1u; for (int32_t i_ = (int32_t)({0} & 31u); i_ >= 0; i_ -= 3) {r} = ({r} << 1) ^ ({1} >> i_);")
op("while_gcd", 32, 2, "{{ uint32_t x_ = ({0} & 0xffffu) | 1u, y_ = ({1} & 0xffffu) | 1u; uint32_t n_ = 0; "
                       "while (x_ != y_ && n_ < 48u) {{ if (x_ > y_) x_ -= y_; else y_ -= x_; n_++; }} {r} = x_ + (n_ << 16); }}")
# ---- memory
op("ld_u8", 32, 1, "{r} = (uint32_t)m->b[{0} & 31u];")
op("ld_s8", 32, 1, "{r} = (uint32_t)(int32_t)(int8_t)m->b[{0} & 31u];")
op("ld_u16", 32, 1, "{r} = (uint32_t)m->h[{0} & 15u];")
op("ld_s16", 32, 1, "{r} = (uint32_t)(int32_t)(int16_t)m->h[{0} & 15u];")
op("ld_u32", 32, 1, "{r} = m->w[{0} & 15u];")
op("ld_u32k", 32, 0, "{r} = m->w[{i16}];", lits=1)
op("ld_u16k", 32, 0, "{r} = (uint32_t)m->h[{i16}];", lits=1)
op("ld_s8k", 32, 0, "{r} = (uint32_t)(int32_t)(int8_t)m->b[{i32}];", lits=1)
op("st_u8", 32, 2, "m->b[{0} & 31u] = (uint8_t){1}; {r} = {1} + 1u;")
op("st_u16", 32, 2, "m->h[{0} & 15u] = (uint16_t){1}; {r} = {1} ^ {0};")
op("st_u32", 32, 2, "m->w[{0} & 15u] = {1}; {r} = {0};")
op("st_u32k", 32, 1, "m->w[{i16}] = {0}; {r} = {0} + {i16}u;", lits=1)
op("st_u8k", 32, 1, "m->b[{i32}] = (uint8_t){0}; {r} = {0} >> 8;", lits=1)
op("rmw_u16", 32, 2, "m->h[{0} & 15u] = (uint16_t)(m->h[{0} & 15u] + (uint16_t){1}); {r} = (uint32_t)m->h[{0} & 15u];")
op("rmw_u8", 32, 2, "m->b[{0} & 31u] ^= (uint8_t){1}; {r} = (uint32_t)m->b[({0} + 1u) & 31u];")
# ---- 64-bit
op("mk64", 64, 2, "{r} = ((uint64_t){0} << 32) | (uint64_t){1};", argty=[32, 32])
op("zext64", 64, 1, "{r} = (uint64_t){0};", argty=[32])
op("sext64", 64, 1, "{r} = (uint64_t)(int64_t)(int32_t){0};", argty=[32])
op("lo64", 32, 1, "{r} = (uint32_t){0};", argty=[64])
op("hi64", 32, 1, "{r} = (uint32_t)({0} >> 32);", argty=[64])
op("fold64", 32, 1, "{r} = (uint32_t){0} ^ (uint32_t)({0} >> 32);", argty=[64])
op("add64", 64, 2, "{r} = {0} + {1};")
op("sub64", 64, 2, "{r} = {0} - {1};")
op("mul64", 64, 2, "{r} = {0} * {1};")
op("and64", 64, 2, "{r} = {0} & {1};")
op("or64", 64, 2, "{r} = {0} | {1};")
op("xor64", 64, 2, "{r} = {0} ^ {1};")
op("not64", 64, 1, "{r} = ~{0};")
op("neg64", 64, 1, "{r} = 0ull - {0};")
op("addi64", 64, 1, "{r} = {0} + {k0}ull;", lits=1)
op("umull", 64, 2, "{r} = (uint64_t){0} * (uint64_t){1};", argty=[32, 32])
op("smull", 64, 2, "{r} = (uint64_t)((int64_t)(int32_t){0} * (int64_t)(int32_t){1});", argty=[32, 32])
op("umlal", 64, 3, "{r} = {2} + (uint64_t){0} * (uint64_t){1};", argty=[32, 32, 64])
op("shl64", 64, 2, "{r} = {0} << ({1} & 63u);", argty=[64, 32])
op("shr64", 64, 2, "{r} = {0} >> ({1} & 63u);", argty=[64, 32])
op("sar64", 64, 2, "{r} = (uint64_t)((int64_t){0} >> ({1} & 63u));", argty=[64, 32])
op("shli64", 64, 1, "{r} = {0} << {t0};", lits=1)
op("shri64", 64, 1, "{r} = {0} >> {t0};", lits=1)
op("sari64", 64, 1, "{r} = (uint64_t)((int64_t){0} >> {t0});", lits=1)
op("rotl64", 64, 2, "{r} = ({0} << ({1} & 63u)) | ({0} >> ((0u - {1}) & 63u));", argty=[64, 32])
op("bswap64", 64, 1, "{r} = __builtin_bswap64({0});")
op("clz64", 32, 1, "{r} = {0} ? (uint32_t)__builtin_clzll({0}) : 64u;", argty=[64])
op("ctz64", 32, 1, "{r} = {0} ? (uint32_t)__builtin_ctzll({0}) : 64u;", argty=[64])
op("ltu64", 32, 2, "{r} = (uint32_t)({0} < {1});", argty=[64, 64])
op("lts64", 32, 2, "{r} = (uint32_t)((int64_t){0} < (int64_t){1});", argty=[64, 64])
op("eq64", 32, 2, "{r} = (uint32_t)({0} == {1});", argty=[64, 64])
op("sel_lts64", 64, 4, "{r} = (int64_t){0} < (int64_t){1} ? {2} : {3};")
op("sel_geu64", 64, 4, "{r} = {0} >= {1} ? {2} : {3};")
op("abs64", 64, 1, "{r} = (int64_t){0} < 0 ? 0ull - {0} : {0};")
op("udiv64", 64, 2, "{r} = {1} ? {0} / {1} : {0};", only64=True)
op("urem64", 64, 2, "{r} = {1} ? {0} % {1} : {1};", only64=True)
op("sdiv64", 64, 2, "{r} = ({1} == 0ull || ({0} == 0x8000000000000000ull && {1} == 0xffffffffffffffffull)) ? {0} : "
                    "(uint64_t)((int64_t){0} / (int64_t){1});", only64=True)
op("umulh64", 64, 2, "{r} = (uint64_t)(((unsigned __int128){0} * (unsigned __int128){1}) >> 64);", only64=True)
# 128-bit arithmetic and comparisons: carry / borrow chains with flag-setting forms (ADCS, SBCS, NGCS)
_U128 = "(((unsigned __int128){%d} << 64) | (unsigned __int128){%d})"
op("ltu128", 32, 4, "{r} = (uint32_t)(%s < %s);" % (_U128 % (0, 1), _U128 % (2, 3)), argty=[64, 64, 64, 64], only64=True)
op("lts128", 32, 4, "{r} = (uint32_t)((__int128)%s < (__int128)%s);" % (_U128 % (0, 1), _U128 % (2, 3)),
   argty=[64, 64, 64, 64], only64=True)
op("ges128", 32, 4, "{r} = (uint32_t)((__int128)%s >= (__int128)%s);" % (_U128 % (0, 1), _U128 % (2, 3)),
   argty=[64, 64, 64, 64], only64=True)
op("sub128hi", 64, 4, "{r} = (uint64_t)((%s - %s) >> 64);" % (_U128 % (0, 1), _U128 % (2, 3)), only64=True)
op("add128hi", 64, 4, "{r} = (uint64_t)((%s + %s) >> 64);" % (_U128 % (0, 1), _U128 % (2, 3)), only64=True)
op("neg128hi", 64, 2, "{r} = (uint64_t)((((unsigned __int128)0) - %s) >> 64);" % (_U128 % (0, 1)), only64=True)
op("sel_lts128", 64, 4, "{r} = (__int128)%s < (__int128)%s ? {0} : {3};" % (_U128 % (0, 1), _U128 % (2, 3)), only64=True)
op("ubfx64", 64, 1, "{r} = ({0} >> {tl0}) & {tm0}ull;", lits=1)
op("ld_u64", 64, 1, "{r} = m->q[{0} & 7u];", argty=[32])
op("st_u64", 64, 2, "m->q[{0} & 7u] = {1}; {r} = {1} + 1ull;", argty=[32, 64])
op("ld_u64k", 64, 0, "{r} = m->q[{i8}];", lits=1)
op("loop_add64", 64, 2, "{r} = {0}; for (uint32_t i_ = 0; i_ < ({1} & 7u) + 2u; i_++) {r} = {r} * 0x100000001b3ull + m->q[i_ & 7u];",
   argty=[64, 32])

OPS_BY_NAME = {o.name: o for o in OPS}
assert len(OPS_BY_NAME) == len(OPS)

K32 = [0, 1, 2, 3, 7, 8, 0xff, 0x100, 0xfff, 0x1000, 0x7fff, 0x8000, 0xffff, 0x10000, 0x12345678,
       0x7fffffff, 0x80000000, 0xfffffffe, 0xffffffff, 0x55555555, 0xff00ff00, 0xfffff000]


class Func(object):
    """one generated function: list of statements (op, result var, operand vars, literals)"""

    def __init__(self, name, ret, stmts, only64):
        self.name = name
        self.ret = ret
        self.stmts = stmts
        self.only64 = only64

    def ops(self, enabled=None):
        return [s['op'] for i, s in enumerate(self.stmts) if enabled is None or i in enabled]

    def source(self, enabled=None, name=None, consts=None, trace=False, pin=False):
        """C text.  A statement whose index is not in `enabled` is replaced by
        the value it had on the failing input (`consts`, read through a volatile
        so that nothing is folded) or by a copy of parameter a.  With `trace`
        (host only) every variable is also written to an extra array."""
        lines = []
        ret_t = "uint64_t" if self.ret == 64 else "uint32_t"
        lines.append("%s %s(uint32_t a, uint32_t b, uint32_t c, struct S *m%s)\n{" % (
            ret_t, name or self.name, ", uint64_t *tr_" if trace else ""))
        acc32, acc64 = [], []
        for i, s in enumerate(self.stmts):
            o = OPS_BY_NAME[s['op']]
            ty = "uint64_t" if o.ty == 64 else "uint32_t"
            v = s['res']
            if enabled is not None and i not in enabled:
                if consts is not None:
                    lines.append("    %s %s; { volatile %s t_ = 0x%x%s; %s = t_; }" % (
                        ty, v, ty, consts[i], "ull" if o.ty == 64 else "u", v))
                else:
                    lines.append("    %s %s = (%s)a;" % (ty, v, ty))
            else:
                d = dict(s['lits'])
                d['r'] = v
                body = o.tmpl.format(*s['args'], **d)
                lines.append("    %s %s; %s" % (ty, v, body))
                if pin:
                    # keep the operands alive across the operation (source and destination
                    # registers must then differ)
                    for j, (arg, t) in enumerate(zip(s['args'], o.argty)):
                        if t == 64:
                            lines.append("    m->q[%d] ^= %s;" % (7 - (j & 3), arg))
                        else:
                            lines.append("    m->w[%d] ^= %s;" % (15 - (j & 3), arg))
            if trace:
                lines.append("    tr_[%d] = (uint64_t)%s;" % (i, v))
            (acc64 if o.ty == 64 else acc32).append(v)
        # fold every variable into the result so that nothing is dead
        e32 = " ^ ".join(["a"] + ["(%s * %du)" % (v, 2 * k + 3) for k, v in enumerate(acc32)])
        if self.ret == 64:
            e64 = " + ".join(["(uint64_t)(%s)" % e32] + ["(%s * %dull)" % (v, 2 * k + 5) for k, v in enumerate(acc64)])
            lines.append("    return %s;" % e64)
        else:
            e = e32
            for v in acc64:
                e += " ^ (uint32_t)%s ^ (uint32_t)(%s >> 32)" % (v, v)
            lines.append("    return %s;" % e)
        lines.append("}")
        text = "\n".join(lines) + "\n"
        if self.only64 and (enabled is None or any(OPS_BY_NAME[s['op']].only64 for i, s in enumerate(self.stmts)
                                                   if i in enabled)):
            # 64-bit division / __int128: only for 64-bit targets (library calls or errors elsewhere)
            text = "#if defined(__LP64__)\n" + text + "#endif\n"
        return text


class CGen(object):
    def __init__(self, rng):
        self.rng = rng

    def literals(self):
        r = self.rng
        l0 = r.randrange(0, 31)
        w0 = r.randrange(1, 32 - l0)
        tl0 = r.randrange(0, 63)
        tw0 = r.randrange(1, 64 - tl0)
        return dict(k0=r.choice(K32 + [r.getrandbits(32), r.getrandbits(8), r.getrandbits(16)]),
                    s0=r.randrange(1, 32), t0=r.randrange(1, 64),
                    d0=r.choice([3, 5, 7, 10, 16, 100, 641, 65537, 1000000007 % (1 << 31)]),
                    l0=l0, m0=(1 << w0) - 1, hl0=32 - l0 - w0, hr0=32 - w0,
                    tl0=tl0, tm0=(1 << tw0) - 1, b0=1 << r.randrange(32),
                    i16=r.randrange(16), i32=r.randrange(32), i8=r.randrange(8))

    def function(self, name, nstmts, allow64ops=True, weights=None):
        r = self.rng
        v32 = ['a', 'b', 'c']
        v64 = []
        stmts = []
        only64 = False
        pool = [o for o in OPS if allow64ops or not o.only64]
        # register-divisor divisions become library calls on ARM without hardware divide
        # (the function is then rejected there): keep them, but rare
        wts = [0.25 if o.name in ('udiv32', 'urem32', 'sdiv32', 'srem32') else
               2.0 if o.name.endswith(('128', '128hi')) else 1.0 for o in pool]
        for i in range(nstmts):
            for _ in range(50):
                o = r.choices(pool, wts)[0]
                if any(t == 64 for t in o.argty) and not v64:
                    # need a 64-bit value first
                    o = OPS_BY_NAME[r.choice(['mk64', 'umull', 'smull', 'sext64', 'ld_u64k'])]
                break
            args = []
            for t in o.argty:
                src = v64 if t == 64 else v32
                # prefer recent values so that results flow through the function
                for _ in range(4):
                    cand = r.choice(src[-4:]) if r.random() < 0.6 else r.choice(src)
                    if cand not in args:
                        break
                args.append(cand)
            res = "v%d" % i
            stmts.append(dict(op=o.name, res=res, args=args, lits=self.literals()))
            (v64 if o.ty == 64 else v32).append(res)
            only64 |= o.only64
        ret = 64 if (v64 and r.random() < 0.4) else 32
        return Func(name, ret, stmts, only64)
