"""C18 model: reference disassembly, operand parsing, state generation, the
defined-flags table (Intel SDM vol. 2 "Flags Affected"), the native executor
wrapper and the miasm executor.

Nothing here uses miasm to decide what an instruction *means*: operands, sizes
and the mnemonic used for the flags table come from binutils objdump; the
meaning itself comes from the host CPU.
"""
import os
import re
import struct
import subprocess

from vf.models.c18_x86enc import WINDOW, WINDOW_SIZE, CODE, CODE_OFF, INSN_ADDR

M64 = (1 << 64) - 1
GPR64 = ['RAX', 'RCX', 'RDX', 'RBX', 'RSP', 'RBP', 'RSI', 'RDI',
         'R8', 'R9', 'R10', 'R11', 'R12', 'R13', 'R14', 'R15']
GPR32 = ['EAX', 'ECX', 'EDX', 'EBX', 'ESP', 'EBP', 'ESI', 'EDI']
FLAG_BITS = dict(CF=0, PF=2, AF=4, ZF=6, SF=7, DF=10, OF=11)
MIASM_FLAG = dict(CF='cf', PF='pf', AF='af', ZF='zf', SF='nf', DF='df', OF='of')
STATUS = ('CF', 'PF', 'AF', 'ZF', 'SF', 'OF')
ALLF = frozenset(STATUS)

IN = struct.Struct('<16sII16QQ256s%ds' % WINDOW_SIZE)
OUT = struct.Struct('<IIQQ16QQ256s%ds' % WINDOW_SIZE)

# ---------------------------------------------------------------------------
# register names of the reference disassembler
# ---------------------------------------------------------------------------
REGS = {}
for _i, _n in enumerate(['ax', 'cx', 'dx', 'bx', 'sp', 'bp', 'si', 'di']):
    REGS['r' + _n] = (_i, 64, 0)
    REGS['e' + _n] = (_i, 32, 0)
    REGS[_n] = (_i, 16, 0)
for _i, _n in enumerate(['al', 'cl', 'dl', 'bl']):
    REGS[_n] = (_i, 8, 0)
for _i, _n in enumerate(['ah', 'ch', 'dh', 'bh']):
    REGS[_n] = (_i, 8, 8)
for _i, _n in enumerate(['spl', 'bpl', 'sil', 'dil']):
    REGS[_n] = (_i + 4, 8, 0)
for _i in range(8, 16):
    REGS['r%d' % _i] = (_i, 64, 0)
    REGS['r%dd' % _i] = (_i, 32, 0)
    REGS['r%dw' % _i] = (_i, 16, 0)
    REGS['r%db' % _i] = (_i, 8, 0)
PTR_SIZE = dict(BYTE=8, WORD=16, DWORD=32, QWORD=64, XMMWORD=128, OWORD=128, TBYTE=80,
                FWORD=48, YMMWORD=256)
PREFIX_TOKENS = {'lock', 'rep', 'repz', 'repnz', 'repe', 'repne', 'data16', 'addr32', 'addr16',
                 'cs', 'ds', 'es', 'ss', 'notrack', 'bnd', 'xacquire', 'xrelease'}


_LLVM_PREFIX_LINES = {'lock', 'data16', 'data32', 'addr32', 'addr16', 'rex64', 'cs', 'ds', 'es', 'ss',
                      'notrack', 'xacquire', 'xrelease'}


class Unparsed(Exception):
    pass


def parse_mem(txt, size):
    seg = None
    m = re.match(r'^(cs|ds|es|ss|fs|gs):(.*)$', txt)
    if m:
        seg, txt = m.group(1), m.group(2)
    op = dict(kind='mem', size=size, base=None, index=None, scale=1, disp=0, seg=seg,
              asz=64, rip=False, absolute=False)
    if not txt.startswith('['):
        # ds:0x1234 (moffs or absolute)
        op['disp'] = int(txt, 16)
        op['absolute'] = True
        return op
    if not txt.endswith(']'):
        raise Unparsed(txt)
    body = txt[1:-1]
    toks = re.findall(r'([+-]?)([^+-]+)', body)
    for sign, t in toks:
        t = t.strip()
        if re.match(r'^0x[0-9a-f]+$', t) or t.isdigit():
            v = int(t, 16) if t.startswith('0x') else int(t)
            op['disp'] += -v if sign == '-' else v
            continue
        if sign == '-':
            raise Unparsed(txt)
        if '*' in t:
            r, sc = t.split('*')
            if r in ('eiz', 'riz'):
                continue
            if r not in REGS:
                raise Unparsed(txt)
            op['index'] = REGS[r][0]
            op['scale'] = int(sc)
            op['asz'] = REGS[r][1]
        elif t == 'rip':
            op['rip'] = True
        elif t == 'eip':
            raise Unparsed(txt)
        elif t in REGS:
            if op['base'] is None:
                op['base'] = REGS[t][0]
            elif op['index'] is None:
                op['index'] = REGS[t][0]
            else:
                raise Unparsed(txt)
            op['asz'] = REGS[t][1]
        else:
            raise Unparsed(txt)
    if op['base'] is None and op['index'] is None and not op['rip']:
        op['absolute'] = True
    return op


def parse(text):
    """objdump -M intel text -> dict(mn, prefixes, ops)"""
    text = text.split('#')[0].strip()
    toks = text.split()
    prefixes = []
    while toks and (toks[0] in PREFIX_TOKENS or toks[0].startswith('rex')):
        prefixes.append(toks.pop(0))
    if not toks:
        raise Unparsed(text)
    mn = toks[0]
    rest = " ".join(toks[1:])
    ops = []
    if rest:
        for part in rest.split(','):
            part = part.strip()
            m = re.match(r'^(BYTE|WORD|DWORD|QWORD|XMMWORD|OWORD|TBYTE|FWORD|YMMWORD) PTR (.*)$', part)
            if m:
                ops.append(parse_mem(m.group(2), PTR_SIZE[m.group(1)]))
            elif part.startswith('[') or re.match(r'^(cs|ds|es|ss|fs|gs):', part):
                ops.append(parse_mem(part, None))
            elif part in REGS:
                idx, size, sh = REGS[part]
                ops.append(dict(kind='reg', idx=idx, size=size, shift=sh))
            elif re.match(r'^xmm\d+$', part):
                ops.append(dict(kind='xmm', idx=int(part[3:]), size=128))
            elif re.match(r'^0x[0-9a-f]+$', part):
                ops.append(dict(kind='imm', val=int(part, 16)))
            elif re.match(r'^-?\d+$', part):
                ops.append(dict(kind='imm', val=int(part)))
            else:
                raise Unparsed(text)
    return dict(mn=mn, prefixes=prefixes, ops=ops, text=text)


# ---------------------------------------------------------------------------
# allow-list (reference mnemonics) and canonical names
# ---------------------------------------------------------------------------
_CC_ALIASES = {'e': 'z', 'ne': 'nz', 'c': 'b', 'nae': 'b', 'nc': 'ae', 'nb': 'ae', 'na': 'be',
               'nbe': 'a', 'p': 'pe', 'np': 'po', 'nge': 'l', 'nl': 'ge', 'ng': 'le', 'nle': 'g'}
_CCS = ['o', 'no', 'b', 'ae', 'z', 'nz', 'be', 'a', 's', 'ns', 'pe', 'po', 'l', 'ge', 'le', 'g']


def canon(mn):
    """canonical mnemonic class used by the flags table"""
    for pre in ('cmov', 'set', 'j'):
        if mn.startswith(pre) and mn not in ('jmp', 'jrcxz', 'jecxz', 'jcxz'):
            cc = mn[len(pre):]
            cc = _CC_ALIASES.get(cc, cc)
            if cc in _CCS:
                return pre + 'cc'
    return mn


ALLOW = set("""
add or adc sbb and sub xor cmp test mov movabs xchg lea inc dec not neg mul imul div idiv
rol ror rcl rcr shl shr sal sar shld shrd bt bts btr btc bsf bsr popcnt tzcnt lzcnt
movzx movsx movsxd cmovcc setcc jcc jmp jrcxz jecxz loop loope loopne call ret xadd cmpxchg
cmpxchg8b cmpxchg16b bswap cbw cwde cdqe cwd cdq cqo lahf sahf clc stc cmc cld std nop xlat
push pop leave enter movs cmps stos lods scas
punpcklbw punpcklwd punpckldq packsswb pcmpgtb pcmpgtw pcmpgtd packuswb punpckhbw punpckhwd
punpckhdq packssdw punpcklqdq punpckhqdq pcmpeqb pcmpeqw pcmpeqd psrlw psrld psrlq paddq pmullw
psubusb psubusw pminub pand paddusb paddusw pmaxub pandn pavgb psraw psrad pavgw pmulhuw pmulhw
psubsb psubsw pminsw por paddsb paddsw pmaxsw pxor psllw pslld psllq pmuludq pmaddwd psadbw
psubb psubw psubd psubq paddb paddw paddd pshufb pcmpeqq pcmpgtq pminsb pminsd pminuw pminud
pmaxsb pmaxsd pmaxuw pmaxud pmulld ptest palignr pshufd pshufhw pshuflw psrldq pslldq pinsrw
pextrw pextrb pextrd pextrq pinsrb pinsrd pinsrq pmovmskb movmskps movmskpd movd movq movdqa
movdqu movaps movapd movups movupd movlps movlpd movhps movhpd unpcklps unpcklpd unpckhps
unpckhpd andps andpd andnps andnpd orps orpd xorps xorpd shufps shufpd movhlps movlhps movss
movsd addps addpd addss addsd mulps mulpd mulss mulsd subps subpd subss subsd divps divpd divss
divsd minps minpd minss minsd maxps maxpd maxss maxsd sqrtps sqrtpd sqrtss sqrtsd
cmpps cmppd cmpss cmpsd ucomiss ucomisd comiss comisd cvtsi2ss cvtsi2sd cvttss2si cvttsd2si
cvtss2si cvtsd2si cvtss2sd cvtsd2ss cvtps2pd cvtpd2ps cvtdq2ps cvtps2dq cvttps2dq cvtdq2pd
cvtpd2dq cvttpd2dq
""".split())
# objdump prints the SSE compare predicates as pseudo-mnemonics (cmpeqps ...)
for _p in ('eq', 'lt', 'le', 'unord', 'neq', 'nlt', 'nle', 'ord'):
    for _s in ('ps', 'pd', 'ss', 'sd'):
        ALLOW.add('cmp' + _p + _s)

BRANCH_MN = {'jcc', 'jmp', 'jrcxz', 'jecxz', 'loop', 'loope', 'loopne', 'call', 'ret'}
STACK_MN = {'push', 'pop', 'call', 'ret', 'enter', 'leave', 'pushf', 'popf'}
STRING_MN = {'movs', 'cmps', 'stos', 'lods', 'scas'}
SHIFTS = {'shl', 'shr', 'sal', 'sar'}
ROTS = {'rol', 'ror', 'rcl', 'rcr'}
FP_RE = re.compile(r'^(add|mul|sub|div|min|max|sqrt|cmp\w*|ucomi|comi)(ps|pd|ss|sd)$|^cvt')


def is_fp(mn):
    return bool(FP_RE.match(mn)) and mn not in ('cmps', 'cmpsd_string')


# ---------------------------------------------------------------------------
# defined-flags table (Intel SDM vol. 2, "Flags Affected" of each instruction)
#   value: set of status flags that are compared (defined by the instruction
#   or left unchanged by it).  DF is always compared.  A mnemonic missing here
#   has no status flag compared (counted flags_unchecked).
# ---------------------------------------------------------------------------
def _shift_count(info, st):
    """(masked count, operand size) of a shift/rotate, None if unknown"""
    ops = info['ops']
    dst = ops[0]
    size = dst['size']
    if size is None:
        return None, None
    if len(ops) == 1:
        cnt = 1
    else:
        c = ops[-1]
        if c['kind'] == 'imm':
            cnt = c['val']
        elif c['kind'] == 'reg' and c['size'] == 8 and c['idx'] == 1 and c['shift'] == 0:
            cnt = st['gpr'][1] & 0xff
        else:
            return None, None
    cnt &= 63 if size == 64 else 31
    return cnt, size


def flags_compared(info, st):
    """set of status flags to compare after this instruction in this state,
    or None when the mnemonic is not in the table"""
    mn = canon(info['mn'])
    ops = info['ops']
    if mn in ('add', 'adc', 'sub', 'sbb', 'cmp', 'neg', 'inc', 'dec', 'xadd', 'cmpxchg',
              'cmps', 'scas', 'sahf', 'popcnt', 'ucomiss', 'ucomisd', 'comiss', 'comisd',
              'ptest', 'cmpxchg8b', 'cmpxchg16b', 'clc', 'stc', 'cmc', 'cld', 'std'):
        # cmps/scas: the 2-operand SSE compare is spelled cmpsd with xmm operands
        return ALLF
    if mn in ('and', 'or', 'xor', 'test'):
        return ALLF - {'AF'}
    if mn in ('mul', 'imul'):
        return frozenset(('CF', 'OF'))
    if mn in ('div', 'idiv'):
        return frozenset()
    if mn in SHIFTS:
        cnt, size = _shift_count(info, st)
        if cnt is None:
            return frozenset()
        if cnt == 0:
            return ALLF
        f = {'SF', 'ZF', 'PF'}
        if cnt == 1:
            f.add('OF')
        if mn == 'sar' or cnt < size:
            f.add('CF')
        elif cnt == size and mn in ('shl', 'sal', 'shr'):
            # SDM: CF undefined for SHL/SHR when count >= operand size
            pass
        return frozenset(f)
    if mn in ROTS:
        cnt, size = _shift_count(info, st)
        if cnt is None:
            return frozenset(('SF', 'ZF', 'AF', 'PF'))
        f = {'SF', 'ZF', 'AF', 'PF'}
        if cnt == 0:
            return ALLF
        if cnt == 1:
            f.add('OF')
        f.add('CF')
        return frozenset(f)
    if mn in ('shld', 'shrd'):
        size = ops[0]['size']
        c = ops[-1]
        if c['kind'] == 'imm':
            cnt = c['val']
        else:
            cnt = st['gpr'][1] & 0xff
        cnt &= 63 if size == 64 else 31
        if cnt == 0:
            return ALLF
        if cnt > size:
            return frozenset()
        f = {'SF', 'ZF', 'PF', 'CF'}
        if cnt == 1:
            f.add('OF')
        return frozenset(f)
    if mn in ('bt', 'bts', 'btr', 'btc'):
        return frozenset(('CF', 'ZF'))
    if mn in ('bsf', 'bsr'):
        return frozenset(('ZF',))
    if mn in ('tzcnt', 'lzcnt'):
        return frozenset(('CF', 'ZF'))
    if mn in UNAFFECTED:
        return ALLF
    return None


UNAFFECTED = set("""
mov movabs xchg lea not movzx movsx movsxd cmovcc setcc jcc jmp jrcxz jecxz loop loope loopne
call ret bswap cbw cwde cdqe cwd cdq cqo lahf nop xlat push pop leave enter movs stos lods
""".split()) | {m for m in ALLOW if m.startswith(('p', 'mov', 'unpck', 'andp', 'andnp', 'orp',
                                                  'xorp', 'shufp', 'addp', 'adds', 'mulp', 'muls',
                                                  'subp', 'subs', 'divp', 'divs', 'minp', 'mins',
                                                  'maxp', 'maxs', 'sqrt', 'cvt', 'cmpeq', 'cmplt',
                                                  'cmple', 'cmpunord', 'cmpneq', 'cmpnlt',
                                                  'cmpnle', 'cmpord', 'cmpps', 'cmppd', 'cmpss', 'cmpsd'))
                      and m not in ('popcnt', 'ptest', 'pop', 'push')}


# ---------------------------------------------------------------------------
# reference disassemblers
# ---------------------------------------------------------------------------
def refdis(cands, mode, workdir, tag="x"):
    """[(len_objdump, text_objdump, len_llvm, text_llvm)] for each candidate
    (candidates are put in 16-byte slots padded with NOPs)"""
    blob = b"".join(c[:15].ljust(16, b"\x90") for c in cands)
    path = os.path.join(workdir, "slots_%s_%d_%d.bin" % (tag, mode, os.getpid()))
    with open(path, "wb") as fd:
        fd.write(blob)
    env = dict(os.environ)
    env.pop("LD_PRELOAD", None)
    r = subprocess.run(['objdump', '-D', '-b', 'binary', '-m', 'i386:x86-64' if mode == 64 else 'i386',
                        '-M', 'intel', '--insn-width=16', path], stdout=subprocess.PIPE,
                       stderr=subprocess.PIPE, env=env)
    if r.returncode:
        raise RuntimeError("objdump failed: %s" % r.stderr[-300:])
    obj = {}
    for line in r.stdout.decode(errors="replace").splitlines():
        parts = line.split('\t')
        if len(parts) >= 3 and parts[0].strip().endswith(':'):
            try:
                addr = int(parts[0].strip()[:-1], 16)
            except ValueError:
                continue
            if addr % 16 == 0:
                obj[addr] = (len(parts[1].split()), parts[2].strip())
    opath = path + ".o"
    r = subprocess.run(['llvm-objcopy-14', '-I', 'binary', '-O',
                        'elf64-x86-64' if mode == 64 else 'elf32-i386', path, opath],
                       stdout=subprocess.PIPE, stderr=subprocess.PIPE, env=env)
    if r.returncode:
        raise RuntimeError("llvm-objcopy failed: %s" % r.stderr[-300:])
    r = subprocess.run(['llvm-objdump-14', '-D', '--x86-asm-syntax=intel', '--no-show-raw-insn',
                        '-j', '.data', opath], stdout=subprocess.PIPE, stderr=subprocess.PIPE, env=env)
    if r.returncode:
        raise RuntimeError("llvm-objdump failed: %s" % r.stderr[-300:])
    lines = []
    for line in r.stdout.decode(errors="replace").splitlines():
        m = re.match(r'^\s*([0-9a-f]+):\s+(.*)$', line)
        if m:
            lines.append((int(m.group(1), 16), m.group(2).strip()))
    llvm = {}
    for k, (addr, txt) in enumerate(lines):
        if addr % 16 == 0 and k + 1 < len(lines):
            # llvm-objdump prints some prefixes (lock, data16, ...) as lines of their own
            j = k
            while txt.split() and all(t in _LLVM_PREFIX_LINES for t in txt.split()) and j + 2 < len(lines) and \
                    lines[j + 1][0] < addr + 15:
                j += 1
                txt = txt + " " + lines[j][1]
            llvm[addr] = (lines[j + 1][0] - addr, txt)
    out = []
    for i in range(len(cands)):
        o = obj.get(16 * i, (0, '(bad)'))
        l = llvm.get(16 * i, (0, '<unknown>'))
        out.append((o[0], o[1], l[0], l[1]))
    for p in (path, opath):
        try:
            os.unlink(p)
        except OSError:
            pass
    return out


def invariant_text(t64, t32):
    """True when the 64-bit-mode and the 32-bit-mode disassembly of the same
    bytes are the same instruction after renaming address registers"""
    def norm(t):
        t = t.split('#')[0].strip()

        def ren(m):
            return re.sub(r'\br([a-ds][xipl])\b', r'e\1', m.group(0))
        t = re.sub(r'\[[^\]]*\]', ren, t)
        t = t.replace('jrcxz', 'jecxz')
        return re.sub(r'\s+', ' ', t)
    return norm(t64) == norm(t32)


# ---------------------------------------------------------------------------
# state generation
# ---------------------------------------------------------------------------
B64 = [0, 1, 2, 3, 0x7f, 0x80, 0xff, 0x100, 0x7fff, 0x8000, 0xffff, 0x10000, 0x7fffffff,
       0x80000000, 0xffffffff, 1 << 32, (1 << 63) - 1, 1 << 63, M64, M64 - 1, 0xfffffffe,
       0xffffffff00000000, 0x8000000000000001, 0x5555555555555555, 0xaaaaaaaaaaaaaaaa]
COUNTS = [0, 1, 2, 3, 4, 7, 8, 9, 15, 16, 17, 18, 24, 27, 31, 32, 33, 34, 35, 47, 63, 64, 65,
          127, 128, 255]
F32 = [0x00000000, 0x80000000, 0x3f800000, 0xbf800000, 0x40000000, 0x3f000000, 0x41200000,
       0x4b000000, 0xcb000001, 0x4effffff, 0x4f000000, 0xcf000000, 0x5f000000, 0x3eaaaaab]
F32S = [0x7f800000, 0xff800000, 0x7fc00000, 0xffc00000, 0x7fa00000, 0x00000001, 0x807fffff,
        0x00800000, 0x7f7fffff, 0xff7fffff, 0x7fc12345, 0x7f812345]
F64 = [0, 1 << 63, 0x3ff0000000000000, 0xbff0000000000000, 0x4000000000000000, 0x3fe0000000000000,
       0x4024000000000000, 0x41dfffffffc00000, 0x41e0000000000000, 0xc1e0000000000000,
       0x43e0000000000000, 0xc3e0000000000000, 0x3fd5555555555555, 0x4330000000000001]
F64S = [0x7ff0000000000000, 0xfff0000000000000, 0x7ff8000000000000, 0xfff8000000000000,
        0x7ff4000000000000, 1, 0x800fffffffffffff, 0x0010000000000000, 0x7fefffffffffffff,
        0x7ff8000000012345, 0x7ff0000000012345]


class StateGen(object):
    def __init__(self, rng, mode):
        self.rng = rng
        self.mode = mode

    def gpr_value(self):
        r = self.rng
        k = r.random()
        if k < 0.3:
            return r.choice(B64)
        if k < 0.45:
            return r.getrandbits(32)
        if k < 0.55:
            return r.choice(COUNTS)
        if k < 0.65:
            return (r.getrandbits(56) << 8) | r.choice([0, 1, 0x7f, 0x80, 0xff, 0x0f, 0x10, 0xf0])
        if k < 0.72:
            return M64 ^ r.getrandbits(20)
        return r.getrandbits(64)

    def fval(self, bits, special):
        r = self.rng
        if bits == 32:
            if special and r.random() < 0.6:
                return r.choice(F32S)
            k = r.random()
            if k < 0.35:
                return r.choice(F32)
            # moderate exponent, random mantissa
            return (r.getrandbits(1) << 31) | (r.randrange(100, 156) << 23) | r.getrandbits(23)
        if special and r.random() < 0.6:
            return r.choice(F64S)
        k = r.random()
        if k < 0.35:
            return r.choice(F64)
        return (r.getrandbits(1) << 63) | (r.randrange(1023 - 40, 1023 + 40) << 52) | r.getrandbits(52)

    def lane_bytes(self, n, fp, special):
        """n bytes of vector data"""
        r = self.rng
        out = b""
        if fp:
            bits = 32 if fp == 32 else 64
            while len(out) < n:
                out += self.fval(bits, special).to_bytes(bits // 8, "little")
            return out[:n]
        k = r.random()
        if k < 0.45:
            return r.getrandbits(8 * n).to_bytes(n, "little")
        if k < 0.7:
            w = r.choice([1, 2, 4, 8])
            vals = [0, 1, (1 << (8 * w - 1)) - 1, 1 << (8 * w - 1), (1 << (8 * w)) - 1,
                    (1 << (8 * w)) - 2, (1 << (8 * w - 1)) + 1, r.getrandbits(8 * w)]
            while len(out) < n:
                out += r.choice(vals).to_bytes(w, "little")
            return out[:n]
        if k < 0.85:
            # shuffle controls / small counts
            return bytes(r.choice([r.randrange(16), r.randrange(256), 0x80 | r.randrange(16)])
                         for _ in range(n))
        cnt = r.choice(COUNTS)
        return (cnt.to_bytes(8, "little") + r.getrandbits(64).to_bytes(8, "little"))[:n].ljust(n, b"\0")

    def make(self, info, nbytes):
        """state for one execution of the instruction described by `info`
        (parsed reference disassembly)"""
        r = self.rng
        mn = info['mn']
        cmn = canon(mn)
        ops = info['ops']
        fp = 0
        special = False
        if is_fp(mn) and any(o['kind'] == 'xmm' for o in ops):
            fp = 32 if (mn.endswith(('ps', 'ss')) or mn.startswith(('cvtps', 'cvtss', 'cvttps', 'cvttss'))) else 64
            if mn.startswith(('cvtdq', 'cvtsi')):
                fp = 0
            special = r.random() < 0.3
        gpr = [self.gpr_value() for _ in range(16)]
        xmm = [self.lane_bytes(16, fp, special) for _ in range(16)]
        # window
        k = r.random()
        if fp:
            win = bytearray(self.lane_bytes(WINDOW_SIZE, fp, special))
        elif k < 0.6:
            win = bytearray(r.getrandbits(8 * WINDOW_SIZE).to_bytes(WINDOW_SIZE, "little"))
        elif k < 0.85:
            win = bytearray(b"".join(r.choice(B64).to_bytes(8, "little") for _ in range(WINDOW_SIZE // 8)))
        else:
            pat = r.getrandbits(64).to_bytes(8, "little")
            win = bytearray(pat * (WINDOW_SIZE // 8))
            for _ in range(r.randrange(0, 6)):
                win[r.randrange(WINDOW_SIZE)] ^= 1 << r.randrange(8)
        flags = 0
        for f in ('CF', 'PF', 'AF', 'ZF', 'SF', 'OF'):
            if r.random() < 0.5:
                flags |= 1 << FLAG_BITS[f]
        if r.random() < (0.5 if cmn in STRING_MN else 0.15):
            flags |= 1 << FLAG_BITS['DF']
        pinned = set()
        code_target = CODE + 0x100 + 16 * r.randrange(0x60)

        # --- mnemonic specific roles
        is_rep = any(p in ('rep', 'repz', 'repnz', 'repe', 'repne') for p in info['prefixes'])
        if cmn in STRING_MN and ops and all(o['kind'] != 'xmm' for o in ops):
            gpr[6] = WINDOW + 0x200 + r.randrange(0xC00)
            gpr[7] = WINDOW + 0x200 + r.randrange(0xC00)
            if r.random() < 0.05:
                gpr[r.choice([6, 7])] = WINDOW + r.choice([0, 1, WINDOW_SIZE - 1, WINDOW_SIZE - 4, WINDOW_SIZE - 8])
            pinned |= {6, 7}
            if is_rep:
                gpr[1] = r.choice([0, 1, 2, 3, 5, 8, 16, r.randrange(17)])
                if ('addr32' in info['prefixes'] or any(o['kind'] == 'mem' and o.get('asz') == 32 for o in ops)) \
                        and gpr[1] and r.random() < 0.6:
                    # address-size override: the count register is ECX; bits above it must not count (only with a
                    # non-zero count: whether an untouched ECX clears the upper half of RCX is left open)
                    gpr[1] |= r.choice([1, 7, r.getrandbits(32) | 1]) << 32
                pinned.add(1)
            if cmn in ('cmps', 'scas') and r.random() < 0.6:
                # equal prefixes so that repe/repne run for a while
                n = r.randrange(0, 40)
                a, b = gpr[6] - WINDOW, gpr[7] - WINDOW
                if flags & (1 << 10):
                    a, b = a - n + 1, b - n + 1
                if 0 <= a and a + n + 8 <= WINDOW_SIZE and 0 <= b and b + n + 8 <= WINDOW_SIZE:
                    chunk = bytes(win[a:a + n + 8])
                    if cmn == 'cmps':
                        win[b:b + n + 8] = chunk
                    else:
                        v = r.getrandbits(64)
                        gpr[0] = v
                        sz = (ops[0]['size'] or 8) // 8
                        pat = (v & ((1 << (8 * sz)) - 1)).to_bytes(sz, "little")
                        fill = (pat * 64)[:n + 8]
                        win[b:b + len(fill)] = fill
        if cmn in STACK_MN or cmn in ('call', 'ret'):
            gpr[4] = (WINDOW + 0x100 + r.randrange(0xE00)) & ~7
            if r.random() < 0.1:
                gpr[4] |= r.randrange(8)
            if r.random() < 0.04:
                gpr[4] = WINDOW + r.choice([0, 4, 8, WINDOW_SIZE - 8, WINDOW_SIZE - 4, WINDOW_SIZE])
            pinned.add(4)
            if cmn in ('leave', 'enter'):
                gpr[5] = (WINDOW + 0x100 + r.randrange(0xE00)) & ~7
                pinned.add(5)
            if cmn == 'ret':
                off = gpr[4] - WINDOW
                if 0 <= off <= WINDOW_SIZE - 8:
                    win[off:off + 8] = code_target.to_bytes(8, "little")
        if cmn == 'xlat':
            gpr[3] = WINDOW + 0x100 + r.randrange(0xD00)
            pinned.add(3)
        if cmn in ('loop', 'loope', 'loopne', 'jrcxz', 'jecxz'):
            gpr[1] = r.choice([0, 1, 2, 1 << 32, (1 << 32) + 1, r.getrandbits(64)])
        if cmn in ('div', 'idiv') and ops:
            size = ops[0]['size'] or 32
            k = r.random()
            if size == 8:
                if k < 0.6:
                    gpr[0] = (gpr[0] & ~0xffff) | r.getrandbits(11)
                    if cmn == 'idiv' and r.random() < 0.5:
                        gpr[0] = (gpr[0] & ~0xffff) | ((-r.getrandbits(10)) & 0xffff)
            else:
                m = (1 << size) - 1
                lo = gpr[0] & m
                if k < 0.35:
                    hi = 0
                elif k < 0.6:
                    hi = m if (lo >> (size - 1)) and cmn == 'idiv' else 0
                elif k < 0.75:
                    hi = r.getrandbits(4)
                else:
                    hi = gpr[2] & m
                gpr[2] = (gpr[2] & ~m & M64) | hi
                if size == 32:
                    gpr[2] &= 0xffffffff
        if cmn in SHIFTS | ROTS | {'shld', 'shrd'}:
            gpr[1] = (gpr[1] & ~0xff & M64) | (r.choice(COUNTS) if r.random() < 0.8 else r.getrandbits(8))
        mem_targets = []
        # --- memory operands: make the effective address fall into the window
        for o in ops:
            if o['kind'] != 'mem' or cmn == 'lea':
                continue
            if cmn in STRING_MN or cmn == 'xlat':
                continue
            size = (o['size'] or 64) // 8
            if cmn in ('bt', 'bts', 'btr', 'btc') and len(ops) == 2 and ops[1]['kind'] == 'reg':
                # bit offset register selects the addressed word
                bo = ops[1]['idx']
                k = r.random()
                if k < 0.5:
                    v = r.randrange(0, ops[1]['size'])
                elif k < 0.9:
                    v = r.randrange(-2048, 2048)
                else:
                    v = None
                if v is not None and bo not in pinned:
                    sz = ops[1]['size']
                    gpr[bo] = ((gpr[bo] >> sz << sz) | (v & ((1 << sz) - 1))) & M64
                    pinned.add(bo)
            k = r.random()
            if k < 0.05:
                tgt = WINDOW + WINDOW_SIZE - r.randrange(0, size + 1)
            elif k < 0.08:
                tgt = WINDOW - r.randrange(0, size)
            else:
                tgt = WINDOW + 0x40 + r.randrange(WINDOW_SIZE - 0x80 - size)
                if size >= 8 and r.random() < 0.8:
                    tgt &= ~(size - 1)
            if cmn in ('bt', 'bts', 'btr', 'btc'):
                tgt = WINDOW + 0x400 + (r.randrange(0x800) & ~7)
            if o['absolute'] or o['rip']:
                if o['rip']:
                    tgt = (INSN_ADDR + nbytes + o['disp']) & M64
                else:
                    tgt = o['disp'] & M64
                mem_targets.append((tgt, size))
                continue
            amask = (1 << o['asz']) - 1
            base, index, scale, disp = o['base'], o['index'], o['scale'], o['disp']
            if index is not None and index not in pinned and index != base:
                gpr[index] = r.choice([0, 1, 2, 3, 8, 0x10, 0x40, r.randrange(0x80), r.getrandbits(8)])
                if self.mode == 64 and r.random() < 0.2:
                    gpr[index] = (-r.randrange(1, 0x40)) & M64
                if o['asz'] == 32 and self.mode == 64 and r.random() < 0.5:
                    gpr[index] = (gpr[index] & 0xffffffff) | (r.getrandbits(32) << 32)
                pinned.add(index)
            if base is not None and base == index:
                if base not in pinned:
                    v = ((tgt - disp) // (1 + scale))
                    gpr[base] = v & M64
                    pinned.add(base)
            elif base is not None:
                if base not in pinned:
                    iv = gpr[index] * scale if index is not None else 0
                    v = (tgt - disp - iv) & amask
                    if o['asz'] == 32 and self.mode == 64:
                        v |= r.getrandbits(32) << 32 if r.random() < 0.5 else 0
                    gpr[base] = v & M64
                    pinned.add(base)
            elif index is not None:
                # [index*scale+disp]; index was given a small value: re-solve
                v = ((tgt - disp) & amask) // scale
                gpr[index] = v & M64
            # effective address actually obtained
            ea = disp
            if base is not None:
                ea += gpr[base]
            if index is not None:
                ea += gpr[index] * scale
            ea &= amask
            mem_targets.append((ea, size))
        if self.mode == 32:
            gpr = [v & 0xffffffff for v in gpr[:8]] + [0] * 8
        # --- contents tweaks that depend on the address
        for tgt, size in mem_targets:
            off = tgt - WINDOW
            if not (0 <= off and off + size <= WINDOW_SIZE):
                continue
            if cmn in ('call', 'jmp') and size == 8:
                win[off:off + 8] = code_target.to_bytes(8, "little")
            elif cmn in ('cmpxchg', 'cmpxchg8b', 'cmpxchg16b') and r.random() < 0.5:
                if cmn == 'cmpxchg':
                    win[off:off + size] = (gpr[0] & ((1 << (8 * size)) - 1)).to_bytes(size, "little")
                else:
                    h = size // 2
                    m = (1 << (8 * h)) - 1
                    win[off:off + size] = (gpr[0] & m).to_bytes(h, "little") + (gpr[2] & m).to_bytes(h, "little")
            elif cmn in ('div', 'idiv'):
                k = r.random()
                if k < 0.12:
                    win[off:off + size] = b"\0" * size
                elif k < 0.4:
                    win[off:off + size] = r.choice([1, 2, 3, 0xff, 0x7f, (1 << (8 * size)) - 1]).to_bytes(8, "little")[:size]
            elif cmn in SHIFTS | ROTS and False:
                pass
        if cmn in ('call', 'jmp') and ops and ops[0]['kind'] == 'reg':
            if ops[0]['size'] == 64:
                gpr[ops[0]['idx']] = code_target
        if cmn in ('div', 'idiv') and ops and ops[0]['kind'] == 'reg':
            o = ops[0]
            k = r.random()
            if o['idx'] not in (0, 2) or o['shift']:
                m = ((1 << o['size']) - 1) << o['shift']
                if k < 0.12:
                    gpr[o['idx']] &= ~m & M64
                elif k < 0.35:
                    gpr[o['idx']] = (gpr[o['idx']] & ~m & M64) | ((r.choice([1, 2, 3, 0x7f, 0xff]) << o['shift']) & m)
        if cmn == 'cmpxchg' and len(ops) == 2 and ops[0]['kind'] == 'reg' and r.random() < 0.4:
            o = ops[0]
            if o['idx'] != 0:
                m = (1 << o['size']) - 1
                v = gpr[0] & m
                gpr[o['idx']] = (gpr[o['idx']] & ~(m << o['shift']) & M64) | (v << o['shift'])
        opts = 1 if cmn in BRANCH_MN else 0
        return dict(gpr=gpr, flags=flags, xmm=xmm, win=bytes(win), mem_targets=mem_targets, opts=opts, fpclass=('special' if special else
                                                                          ('normal' if fp else None)))


# ---------------------------------------------------------------------------
# native executor
# ---------------------------------------------------------------------------
class Native(object):
    def __init__(self, workdir, src=None):
        self.workdir = workdir
        self.src = src or os.path.join(os.path.dirname(os.path.dirname(os.path.abspath(__file__))),
                                       "native", "x86host.c")
        self.exe = os.path.join(workdir, "x86host")
        self.n = 0

    def build(self):
        if os.path.exists(self.exe):
            return
        env = dict(os.environ)
        env.pop("LD_PRELOAD", None)
        tmp = self.exe + ".%d" % os.getpid()
        r = subprocess.run(['/usr/bin/gcc', '-O1', '-o', tmp, self.src], stdout=subprocess.PIPE,
                           stderr=subprocess.STDOUT, env=env)
        if r.returncode:
            raise RuntimeError("x86host.c does not build: %s" % r.stdout.decode()[-2000:])
        os.rename(tmp, self.exe)

    def run(self, cases):
        """cases: list of (code bytes, state) -> list of result dicts"""
        self.n += 1
        pin = os.path.join(self.workdir, "nat%d_%d.in" % (os.getpid(), self.n))
        pout = os.path.join(self.workdir, "nat%d_%d.out" % (os.getpid(), self.n))
        with open(pin, "wb") as fd:
            for code, st in cases:
                g = list(st['gpr']) + [0] * (16 - len(st['gpr']))
                fd.write(IN.pack(code.ljust(16, b"\0"), len(code), st.get('opts', 0), *g, st['flags'],
                                 b"".join(st['xmm']), st['win']))
        env = dict(os.environ)
        env.pop("LD_PRELOAD", None)
        r = subprocess.run([self.exe, pin, pout, "3"], stdout=subprocess.PIPE, stderr=subprocess.STDOUT,
                           env=env)
        if r.returncode:
            raise RuntimeError("x86host failed rc=%s %s" % (r.returncode, r.stdout.decode()[-500:]))
        data = open(pout, "rb").read()
        res = []
        for i in range(len(cases)):
            o = OUT.unpack_from(data, i * OUT.size)
            res.append(dict(outcome=o[0], si_code=o[1], fault_addr=o[2], rip=o[3], gpr=list(o[4:20]),
                            flags=o[20], xmm=[o[21][16 * k:16 * k + 16] for k in range(16)], win=o[22]))
        os.unlink(pin)
        os.unlink(pout)
        return res


# ---------------------------------------------------------------------------
# miasm executor
# ---------------------------------------------------------------------------
class Miasm(object):
    def __init__(self, mode, backend):
        from miasm.analysis.machine import Machine
        from miasm.core.locationdb import LocationDB
        from miasm.jitter import csts
        self.csts = csts
        self.mode = mode
        self.backend = backend
        self.loc_db = LocationDB()
        self.machine = Machine('x86_64' if mode == 64 else 'x86_32')
        self.jitter = self.machine.jitter(self.loc_db, backend)
        self.jitter.jit.options['jit_maxline'] = 1
        j = self.jitter
        j.vm.add_memory_page(CODE, csts.PAGE_READ | csts.PAGE_WRITE | csts.PAGE_EXEC,
                             b"\xcc" * 4096, "code")
        j.vm.add_memory_page(WINDOW, csts.PAGE_READ | csts.PAGE_WRITE, b"\0" * WINDOW_SIZE, "window")
        self.cur_code = None
        self.gprs = GPR64 if mode == 64 else GPR32
        self.mn = self.machine.mn

    def decode(self, code):
        """miasm's own decoding: (name, length, text) or None"""
        try:
            from miasm.core.bin_stream import bin_stream_str
            bs = bin_stream_str(code + b"\x90" * 16, base_address=INSN_ADDR)
            ins = self.mn.dis(bs, self.mode, INSN_ADDR)
        except Exception:
            return None
        pfx = ""
        g1 = getattr(ins, 'additional_info', None)
        g1 = getattr(g1, 'g1', None)
        if g1 is not None and getattr(g1, 'value', 0):
            v = g1.value
            pfx = ("LOCK " if v & 1 else "") + ("REPNE " if v & 2 else "") + ("REPE " if v & 4 else "")
        try:
            txt = str(ins)
        except Exception:
            txt = ins.name
        return ins.name, ins.l, txt

    def set_code(self, code):
        if code == self.cur_code:
            return
        j = self.jitter
        j.vm.set_mem(CODE, b"\xcc" * 4096)
        j.vm.set_mem(INSN_ADDR, code)
        j.jit.clear_jitted_blocks()
        j.vm.reset_code_bloc_pool()
        self.cur_code = code

    def run(self, code, st):
        """-> dict(outcome, pc, gpr, flags, xmm, win, exc)
        outcome: ok | div | mem | unsupported:<why> | raised:<type>"""
        csts = self.csts
        j = self.jitter
        cpu, vm = j.cpu, j.vm
        self.set_code(code)
        vm.set_mem(WINDOW, st['win'])
        for name, v in zip(self.gprs, st['gpr']):
            setattr(cpu, name, v)
        f = st['flags']
        for fl, attr in MIASM_FLAG.items():
            setattr(cpu, attr, (f >> FLAG_BITS[fl]) & 1)
        for i in range(16 if self.mode == 64 else 8):
            setattr(cpu, 'XMM%d' % i, int.from_bytes(st['xmm'][i], "little"))
        cpu.set_exception(0)
        vm.set_exception(0)
        pc = INSN_ADDR
        outcome = 'ok'
        detail = None
        try:
            for _ in range(80):
                pc = j.jit.run_at(cpu, pc, set())
                ce, ve = cpu.get_exception(), vm.get_exception()
                if ce or ve:
                    break
                if pc != INSN_ADDR:
                    break
            else:
                outcome = 'unsupported:rep-did-not-finish'
        except NotImplementedError as exc:
            outcome = 'unsupported:NotImplementedError'
            detail = str(exc)[:200]
        except Exception as exc:
            msg = str(exc)
            detail = msg[:300]
            if 'simplification is missing' in msg:
                # the Python back end has no evaluation for this operator
                # (floating point, ...): unsupported by the back end
                outcome = 'unsupported:python-backend-cannot-evaluate'
            elif isinstance(exc, RuntimeError) and 'Cannot find address' in msg:
                outcome = 'mem'      # Python back end: unmapped read (DESIGN.md C20 H2)
            elif isinstance(exc, TypeError) and 'Error in set_mem' in msg:
                outcome = 'mem'      # Python back end: unmapped write
            else:
                outcome = 'raised:%s' % type(exc).__name__
        ce, ve = cpu.get_exception(), vm.get_exception()
        if outcome == 'ok':
            if ce & csts.EXCEPT_UNK_MNEMO == csts.EXCEPT_UNK_MNEMO:
                outcome = 'unsupported:UNK_MNEMO'
            elif ce & (1 << 16):
                outcome = 'div'
            elif ve & (1 << 14):
                outcome = 'mem'
            elif ce or ve:
                outcome = 'exc:cpu=%x,vm=%x' % (ce, ve & ~1)
                if (ve & ~1) == 0 and ce == 0:
                    outcome = 'ok'
        res = dict(outcome=outcome, pc=pc, detail=detail)
        if outcome in ('ok', 'div', 'mem') or outcome.startswith('exc:'):
            res['gpr'] = [getattr(cpu, n) for n in self.gprs]
            fl = 0
            for name, attr in MIASM_FLAG.items():
                fl |= (getattr(cpu, attr) & 1) << FLAG_BITS[name]
            res['flags'] = fl
            res['xmm'] = [getattr(cpu, 'XMM%d' % i).to_bytes(16, "little")
                          for i in range(16 if self.mode == 64 else 8)]
            res['win'] = vm.get_mem(WINDOW, WINDOW_SIZE)
        return res


# ---------------------------------------------------------------------------
# classification helpers
# ---------------------------------------------------------------------------
def operand_value(o, st):
    """value of a register / window memory operand in state st, or None"""
    if o['kind'] == 'reg':
        return (st['gpr'][o['idx']] >> o['shift']) & ((1 << o['size']) - 1)
    if o['kind'] == 'mem' and len(st.get('mem_targets', ())) == 1 and o.get('size'):
        ea, size = st['mem_targets'][0]
        off = ea - WINDOW
        if 0 <= off and off + size <= WINDOW_SIZE:
            return int.from_bytes(st['win'][off:off + size], "little")
    return None


def vec_value(o, st):
    """16 bytes of an xmm / memory operand (memory: possibly fewer), or None"""
    if o['kind'] == 'xmm':
        return st['xmm'][o['idx']]
    if o['kind'] == 'mem' and len(st.get('mem_targets', ())) == 1:
        off = st['mem_targets'][0][0] - WINDOW
        n = (o.get('size') or 128) // 8
        if 0 <= off <= WINDOW_SIZE - n:
            return st['win'][off:off + n].ljust(16, b"\0")
    return None


_FP_SRC = {'cvtss2sd': (4, 1), 'cvtsd2ss': (8, 1), 'cvtps2pd': (4, 2), 'cvtpd2ps': (8, 2),
           'cvtps2dq': (4, 4), 'cvttps2dq': (4, 4), 'cvtpd2dq': (8, 2), 'cvttpd2dq': (8, 2),
           'cvtss2si': (4, 1), 'cvttss2si': (4, 1), 'cvtsd2si': (8, 1), 'cvttsd2si': (8, 1),
           'comiss': (4, 1), 'ucomiss': (4, 1), 'comisd': (8, 1), 'ucomisd': (8, 1)}


def fp_class(info, st):
    """class of the floating-point inputs, only where it names a mechanism:
    MIN*/MAX* (the processor returns the second operand for two zeros and for a NaN)
    and CMPPS/PD/SS/SD with reserved immediate bits.  Other floating-point
    departures are keyed by (mode, back end, mnemonic, what differs) only."""
    mn = info['mn']
    ops = info['ops']
    if re.match(r'^cmp(ps|pd|ss|sd)$', mn) and ops and ops[-1]['kind'] == 'imm' and \
            any(o['kind'] == 'xmm' for o in ops):
        if ops[-1]['val'] > 7:
            return "imm8>7"
    if not re.match(r'^(min|max|cmp(eq|lt|le|unord|neq|nlt|nle|ord)?)(ps|pd|ss|sd)$', mn) or len(ops) < 2 or \
            not any(o['kind'] == 'xmm' for o in ops):
        return None
    sfx = mn[-2:]
    w = 4 if sfx in ('ps', 'ss') else 8
    n = 1 if sfx in ('ss', 'sd') else 16 // w
    vals = [vec_value(o, st) for o in ops[:2]]
    if any(v is None for v in vals):
        return "lanes:?"
    sign = 1 << (8 * w - 1)
    mant = (1 << (23 if w == 4 else 52)) - 1
    expm = (sign - 1) ^ mant
    kinds = set()
    for i in range(n):
        lane = [int.from_bytes(v[i * w:(i + 1) * w], "little") for v in vals]
        if any((x & expm) == expm and (x & mant) for x in lane):
            kinds.add("nan")
        elif all((x & ~sign) == 0 for x in lane) and lane[0] != lane[1]:
            kinds.add("zeros-of-opposite-sign")
        elif lane[0] == lane[1] and lane[0] & sign and lane[0] & ~sign:
            kinds.add("equal-negative")
    for k in ("nan", "zeros-of-opposite-sign", "equal-negative"):
        if k in kinds:
            return "lanes:" + k
    return "lanes:ordinary"


def key_name(name, cmn):
    """mnemonic part of a finding key: condition-code families share one semantic template"""
    if cmn == 'cmovcc':
        return 'CMOVcc'
    if cmn == 'setcc':
        return 'SETcc'
    if cmn == 'jcc':
        return 'Jcc'
    m = re.match(r'^CMP(EQ|LT|LE|UNORD|NEQ|NLT|NLE|ORD)(PS|PD|SS|SD)$', name)
    if m:
        return 'CMPcc' + m.group(2)
    return name


def cond_class(info, st):
    """condition class of a case (part of a finding key): only conditions that
    name a mechanism -- count class of shifts/rotates, divisor class, bit-offset
    class of BT*, redundant REX bits, count operand of packed shifts, FP class"""
    mn = canon(info['mn'])
    ops = info['ops']
    parts = []
    if mn in ('push', 'pop', 'xchg', 'mov', 'movabs', 'bswap', 'nop') and \
            any(p.startswith('rex.') for p in info['prefixes']) and \
            all(o['kind'] != 'mem' for o in ops):
        # register-in-opcode forms: objdump prints the REX prefix when some of its bits are unused
        parts.append("unused-rex-bits")
    if mn in ('loop', 'loope', 'loopne', 'jrcxz', 'jecxz') and 'addr32' in info['prefixes']:
        parts.append("addr32")
    if mn == 'enter' and len(ops) == 2 and ops[1]['kind'] == 'imm':
        parts.append("nesting-level=0" if (ops[1]['val'] & 31) == 0 else "nesting-level>0")
    if mn == 'cmovcc' and len(ops) == 2 and ops[0]['kind'] == 'reg' and ops[1]['kind'] == 'mem' and \
            ops[0]['idx'] in (ops[1]['base'], ops[1]['index']):
        parts.append("dst-in-address")
    if mn in SHIFTS or mn in ROTS or mn in ('shld', 'shrd'):
        if mn in ('shld', 'shrd'):
            c = ops[-1]
            cnt = c['val'] if c['kind'] == 'imm' else st['gpr'][1] & 0xff
            sz = ops[0]['size']
            raw = cnt
            cnt &= 63 if sz == 64 else 31
        else:
            cnt, sz = _shift_count(info, st)
            raw = None
            if len(ops) == 2:
                c = ops[-1]
                raw = c['val'] if c['kind'] == 'imm' else st['gpr'][1] & 0xff
        if cnt is not None:
            if cnt == 0:
                parts.append("count=0")
            elif cnt == 1:
                parts.append("count=1" if raw in (None, 1) else "masked-count=1")
            elif cnt < sz:
                parts.append("1<count<size")
            elif cnt == sz:
                parts.append("count=size")
            else:
                parts.append("count>size")
    if mn in ('bt', 'bts', 'btr', 'btc') and len(ops) == 2:
        sz = ops[0]['size'] or 32
        parts.append("mem" if ops[0]['kind'] == 'mem' else "reg")
        if ops[1]['kind'] == 'imm':
            parts.append("imm>=size" if ops[1]['val'] >= sz else "imm<size")
        elif ops[1]['kind'] == 'reg':
            v = operand_value(ops[1], st)
            if v >> (ops[1]['size'] - 1):
                parts.append("bitoffset<0")
            elif v >= sz:
                parts.append("bitoffset>=size")
            else:
                parts.append("bitoffset<size")
    if re.match(r'^ps(ll|rl|ra)[wdq]$', mn) and len(ops) == 2 and ops[1]['kind'] != 'imm':
        hi = None
        if ops[1]['kind'] == 'xmm':
            hi = int.from_bytes(st['xmm'][ops[1]['idx']][8:], "little")
        elif ops[1]['kind'] == 'mem' and len(st.get('mem_targets', ())) == 1:
            off = st['mem_targets'][0][0] - WINDOW
            if 0 <= off <= WINDOW_SIZE - 16:
                hi = int.from_bytes(st['win'][off + 8:off + 16], "little")
        if hi is not None:
            parts.append("count.hi64!=0" if hi else "count.hi64=0")
    if mn in ('div', 'idiv') and ops:
        v = operand_value(ops[0], st)
        if v is not None:
            parts.append("divisor=0" if v == 0 else "divisor!=0")
    fc = fp_class(info, st)
    if fc:
        parts.append(fc)
    return " ".join(parts)
