"""C19 runtime: cross-compilation, a minimal ELF relocatable reader, the
miasm executor (ABI argument registers, mapped stack, breakpoint on the return
address, executed-mnemonic recording) and the host reference (ctypes).
"""
import ctypes
import os
import struct
import subprocess

from vf.models.c19_cgen import S_LAYOUT, S_SIZE

COMMON_CFLAGS = ["-w", "-ffreestanding", "-fno-builtin", "-fno-jump-tables", "-ffunction-sections",
                 "-fno-pic", "-fno-asynchronous-unwind-tables", "-fno-stack-protector",
                 "-fno-vectorize", "-fno-slp-vectorize", "-fno-unroll-loops"]

CODE_BASE = 0x0            # .text.<fn> is loaded at guest address 0 (MIPS absolute jumps need no relocation)
STACK_BASE = 0x20000000
STACK_SIZE = 0x10000
MEM_BASE = 0x30000000
RET_ADDR = 0x40000000

TARGETS = {
    "arm": dict(triple="armv7a-none-eabi", cflags=["-marm", "-march=armv7-a", "-mfloat-abi=soft", "-mno-unaligned-access"],
                machine="arml", big=False, args=["R0", "R1", "R2", "R3"], ret32="R0", ret=["R0", "R1"],
                lr="LR", sp="SP", bits=32),
    "thumb": dict(triple="thumbv7a-none-eabi", cflags=["-mthumb", "-mfloat-abi=soft", "-mcpu=cortex-a15", "-mno-unaligned-access"],
                  machine="armtl", big=False, args=["R0", "R1", "R2", "R3"], ret32="R0", ret=["R0", "R1"],
                  lr="LR", sp="SP", bits=32),
    "aarch64": dict(triple="aarch64-linux-gnu", cflags=["-mgeneral-regs-only"],
                    machine="aarch64l", big=False, args=["X0", "X1", "X2", "X3"], ret32="X0", ret=["X0"],
                    lr="LR", sp="SP", bits=64),
    "mips": dict(triple="mips-linux-gnu", cflags=["-mips32r2", "-mno-abicalls", "-msoft-float"],
                 machine="mips32b", big=True, args=["A0", "A1", "A2", "A3"], ret32="V0", ret=["V1", "V0"],
                 lr="RA", sp="SP", bits=32),
    "mipsel": dict(triple="mipsel-linux-gnu", cflags=["-mips32r2", "-mno-abicalls", "-msoft-float"],
                   machine="mips32l", big=False, args=["A0", "A1", "A2", "A3"], ret32="V0", ret=["V0", "V1"],
                   lr="RA", sp="SP", bits=32),
    "ppc": dict(triple="powerpc-linux-gnu", cflags=["-msoft-float"],
                machine="ppc32b", big=True, args=["R3", "R4", "R5", "R6"], ret32="R3", ret=["R4", "R3"],
                lr="LR", sp="R1", bits=32),
}
# ret: [register of the low half, register of the high half] of a 64-bit result on 32-bit targets
ALLOWED_RELOC = {"mips": {4}, "mipsel": {4}}      # R_MIPS_26 against the function's own section


class ToolError(Exception):
    pass


def _env():
    env = dict(os.environ)
    env.pop("LD_PRELOAD", None)
    return env


def cross_compile(src_path, target, opt, out_path):
    t = TARGETS[target]
    cmd = ["clang-14", "-target", t["triple"]] + t["cflags"] + COMMON_CFLAGS + [opt, "-c", src_path, "-o", out_path]
    r = subprocess.run(cmd, stdout=subprocess.PIPE, stderr=subprocess.STDOUT, env=_env())
    if r.returncode:
        raise ToolError("clang %s %s: %s" % (target, opt, r.stdout.decode(errors="replace")[-600:]))


def host_compile(src_path, out_path):
    cmd = ["/usr/bin/gcc", "-w", "-O1", "-fno-builtin", "-shared", "-fPIC", src_path, "-o", out_path]
    r = subprocess.run(cmd, stdout=subprocess.PIPE, stderr=subprocess.STDOUT, env=_env())
    if r.returncode:
        raise ToolError("host gcc: %s" % r.stdout.decode(errors="replace")[-600:])


# ---------------------------------------------------------------------------
# minimal ELF relocatable reader
# ---------------------------------------------------------------------------
def read_elf_functions(path):
    """{function name: dict(code=bytes, relocs=[(offset, type, symbol section index, symbol name)])}
    for every section named .text.<function>"""
    data = open(path, "rb").read()
    if data[:4] != b"\x7fELF":
        raise ToolError("not an ELF file")
    is64 = data[4] == 2
    end = "<" if data[5] == 1 else ">"
    if is64:
        (e_shoff,) = struct.unpack_from(end + "Q", data, 0x28)
        e_shentsize, e_shnum, e_shstrndx = struct.unpack_from(end + "HHH", data, 0x3A)
    else:
        (e_shoff,) = struct.unpack_from(end + "I", data, 0x20)
        e_shentsize, e_shnum, e_shstrndx = struct.unpack_from(end + "HHH", data, 0x2E)
    secs = []
    for i in range(e_shnum):
        off = e_shoff + i * e_shentsize
        if is64:
            name, typ, flags, addr, offset, size, link, info, align, entsize = struct.unpack_from(
                end + "IIQQQQIIQQ", data, off)
        else:
            name, typ, flags, addr, offset, size, link, info, align, entsize = struct.unpack_from(
                end + "IIIIIIIIII", data, off)
        secs.append(dict(name_off=name, type=typ, offset=offset, size=size, link=link, info=info,
                         entsize=entsize))
    strtab = secs[e_shstrndx]

    def cstr(base, off):
        e = data.index(b"\0", base + off)
        return data[base + off:e].decode()
    for s in secs:
        s["name"] = cstr(strtab["offset"], s["name_off"])
    symtab = next((s for s in secs if s["type"] == 2), None)
    syms = []
    if symtab is not None:
        sstr = secs[symtab["link"]]
        n = symtab["size"] // (24 if is64 else 16)
        for i in range(n):
            off = symtab["offset"] + i * (24 if is64 else 16)
            if is64:
                st_name, st_info, st_other, st_shndx, st_value, st_size = struct.unpack_from(end + "IBBHQQ", data, off)
            else:
                st_name, st_value, st_size, st_info, st_other, st_shndx = struct.unpack_from(end + "IIIBBH", data, off)
            syms.append(dict(name=cstr(sstr["offset"], st_name), shndx=st_shndx, value=st_value, info=st_info))
    funcs = {}
    index = {}
    for i, s in enumerate(secs):
        if s["type"] == 1 and s["name"].startswith(".text.") and s["size"]:
            fn = s["name"][6:]
            funcs[fn] = dict(code=data[s["offset"]:s["offset"] + s["size"]], relocs=[], secidx=i, entry=0)
            index[i] = fn
    for f in funcs.values():
        for sy in syms:
            if sy["shndx"] == f["secidx"] and (sy["info"] & 0xf) == 2:
                f["entry"] = sy["value"] & ~1        # Thumb symbols carry bit 0
    for s in secs:
        if s["type"] not in (4, 9) or s["info"] not in index:
            continue
        fn = index[s["info"]]
        rela = s["type"] == 4
        if is64:
            esz = 24 if rela else 16
        else:
            esz = 12 if rela else 8
        for k in range(s["size"] // esz):
            off = s["offset"] + k * esz
            if is64:
                r_offset, r_info = struct.unpack_from(end + "QQ", data, off)
                rtype, rsym = r_info & 0xffffffff, r_info >> 32
            else:
                r_offset, r_info = struct.unpack_from(end + "II", data, off)
                rtype, rsym = r_info & 0xff, r_info >> 8
            sy = syms[rsym] if rsym < len(syms) else dict(shndx=-1, name="?")
            funcs[fn]["relocs"].append((r_offset, rtype, sy["shndx"], sy["name"]))
    return funcs


def usable(target, f):
    """a function can be loaded without a linker: no relocation, except the
    MIPS absolute jump inside its own section (loaded at address 0)"""
    for off, rtype, shndx, name in f["relocs"]:
        if rtype in ALLOWED_RELOC.get(target, ()) and shndx == f["secidx"]:
            continue
        return False
    return True


# ---------------------------------------------------------------------------
# struct S image
# ---------------------------------------------------------------------------
def pack_mem(vals, big):
    """vals: dict(q=[8], w=[16], h=[16], b=[32]) -> bytes in target endianness"""
    out = bytearray(S_SIZE)
    for name, size, count, off in S_LAYOUT:
        for i, v in enumerate(vals[name]):
            out[off + i * size:off + (i + 1) * size] = int(v).to_bytes(size, "big" if big else "little")
    return bytes(out)


def unpack_mem(data, big):
    vals = {}
    for name, size, count, off in S_LAYOUT:
        vals[name] = [int.from_bytes(data[off + i * size:off + (i + 1) * size], "big" if big else "little")
                      for i in range(count)]
    return vals


# ---------------------------------------------------------------------------
# host reference
# ---------------------------------------------------------------------------
class Host(object):
    def __init__(self, so_path):
        self.lib = ctypes.CDLL(so_path)

    def call(self, fname, ret64, a, b, c, memvals):
        fn = getattr(self.lib, fname)
        fn.restype = ctypes.c_uint64 if ret64 else ctypes.c_uint32
        fn.argtypes = [ctypes.c_uint32, ctypes.c_uint32, ctypes.c_uint32, ctypes.c_void_p]
        buf = ctypes.create_string_buffer(pack_mem(memvals, False), S_SIZE)
        r = fn(a, b, c, ctypes.addressof(buf))
        return int(r), unpack_mem(buf.raw, False)


    def trace(self, fname, a, b, c, memvals, n):
        """values of the n statement variables of a function compiled with trace=True"""
        fn = getattr(self.lib, fname)
        fn.restype = ctypes.c_uint64
        fn.argtypes = [ctypes.c_uint32, ctypes.c_uint32, ctypes.c_uint32, ctypes.c_void_p, ctypes.c_void_p]
        buf = ctypes.create_string_buffer(pack_mem(memvals, False), S_SIZE)
        tr = (ctypes.c_uint64 * max(1, n))()
        fn(a, b, c, ctypes.addressof(buf), ctypes.addressof(tr))
        return [int(x) for x in tr][:n]


# ---------------------------------------------------------------------------
# miasm executor
# ---------------------------------------------------------------------------
class Guest(object):
    def __init__(self, target, backend):
        from miasm.analysis.machine import Machine
        from miasm.core.locationdb import LocationDB
        from miasm.jitter import csts
        self.csts = csts
        self.target = target
        self.t = TARGETS[target]
        self.backend = backend
        self.loc_db = LocationDB()
        self.machine = Machine(self.t["machine"])
        self.jitter = self.machine.jitter(self.loc_db, backend)
        j = self.jitter
        # Blocks end at branches only.  (Side observation, outside C19: the Python back end never
        # clears the MIPS "branch_dst_set" delay-slot marker, so a block that ends without a branch
        # -- split at jit_maxline or at a breakpoint -- jumps to the target of the last taken branch.)
        j.jit.options["jit_maxline"] = 100000
        j.vm.add_memory_page(STACK_BASE, csts.PAGE_READ | csts.PAGE_WRITE, b"\0" * STACK_SIZE, "stack")
        j.vm.add_memory_page(MEM_BASE, csts.PAGE_READ | csts.PAGE_WRITE, b"\0" * 4096, "S")
        self.code_len = 0
        self.cur = None
        self.fault = None
        self.steps = 0
        self.pcs = set()
        self.max_steps = 6000

        def on_ret(jitter):
            self.returned = True
            return False

        def on_fault(jitter):
            self.fault = "EXCEPT_ACCESS_VIOL"
            return False

        def on_unk(jitter):
            self.fault = "EXCEPT_UNK_MNEMO"
            return False

        def on_div(jitter):
            self.fault = "EXCEPT_DIV_BY_ZERO"
            return False

        def on_other(flag):
            def cb(jitter):
                self.fault = "exception 0x%x" % flag
                return False
            return cb
        j.add_breakpoint(RET_ADDR, on_ret)
        j.add_exception_handler(csts.EXCEPT_ACCESS_VIOL, on_fault)
        j.add_exception_handler(csts.EXCEPT_UNK_MNEMO, on_unk)
        j.add_exception_handler(csts.EXCEPT_DIV_BY_ZERO, on_div)
        for fl in (csts.EXCEPT_ILLEGAL_INSN, csts.EXCEPT_PRIV_INSN, csts.EXCEPT_INT_XX, csts.EXCEPT_SOFT_BP,
                   csts.EXCEPT_SYSCALL):
            j.add_exception_handler(fl, on_other(fl))

        mips_py = backend == "python" and target.startswith("mips")
        if mips_py:
            from miasm.expression.expression import ExprId, ExprInt
            self._bds = (ExprId("branch_dst_set", 32), ExprInt(0, 32))

        def exec_cb(jitter):
            if mips_py:
                # what the C back ends do implicitly (the marker is a local of each block)
                jitter.jit.symbexec.symbols[self._bds[0]] = self._bds[1]
            self.steps += 1
            self.pcs.add(jitter.pc)
            if self.steps > self.max_steps:
                self.fault = "step budget"
                return False
            return True
        j.exec_cb = exec_cb

    def load(self, code):
        j = self.jitter
        if code == self.cur:
            return
        csts = self.csts
        if self.code_len:
            j.vm.remove_memory_page(CODE_BASE)
        j.vm.add_memory_page(CODE_BASE, csts.PAGE_READ | csts.PAGE_EXEC, code + b"\0" * 16, "code")
        self.code_len = len(code)
        j.jit.clear_jitted_blocks()
        j.vm.reset_code_bloc_pool()
        self.cur = code
        self.pcs = set()

    def call(self, code, entry, ret64, a, b, c, memvals):
        """-> dict(outcome, ret, mem, detail)   outcome: ok | unsupported:<why> | fault:<what> | raised:<type>"""
        t = self.t
        j = self.jitter
        cpu, vm = j.cpu, j.vm
        self.load(code)
        vm.set_mem(MEM_BASE, pack_mem(memvals, t["big"]) + b"\0" * (4096 - S_SIZE))
        vm.set_mem(STACK_BASE, b"\0" * STACK_SIZE)
        cpu.init_regs()
        sp = STACK_BASE + STACK_SIZE - 0x200
        for reg, v in zip(t["args"], (a, b, c, MEM_BASE)):
            setattr(cpu, reg, v)
        setattr(cpu, t["sp"], sp)
        setattr(cpu, t["lr"], RET_ADDR)
        cpu.set_exception(0)
        vm.set_exception(0)
        if self.backend == "python" and self.target.startswith("mips"):
            from miasm.expression.expression import ExprId, ExprInt
            j.jit.symbexec.symbols[ExprId("branch_dst_set", 32)] = ExprInt(0, 32)
        self.fault = None
        self.returned = False
        self.steps = 0
        outcome, detail = "ok", None
        try:
            j.init_run(CODE_BASE + entry)
            j.continue_run()
        except NotImplementedError as exc:
            outcome, detail = "unsupported:NotImplementedError", str(exc)[:200]
        except Exception as exc:
            msg = str(exc)
            detail = msg[:300]
            if "simplification is missing" in msg:
                outcome = "unsupported:python-backend-cannot-evaluate"
            elif isinstance(exc, RuntimeError) and "Cannot find address" in msg:
                outcome = "fault:memory"
            elif isinstance(exc, TypeError) and "Error in set_mem" in msg:
                outcome = "fault:memory"
            else:
                outcome = "raised:%s" % type(exc).__name__
        if outcome == "ok":
            if self.fault == "EXCEPT_UNK_MNEMO":
                outcome = "unsupported:UNK_MNEMO"
                detail = "pc=0x%x" % j.pc
            elif self.fault == "EXCEPT_ACCESS_VIOL":
                outcome = "fault:memory"
                detail = "pc=0x%x" % j.pc
            elif self.fault:
                outcome = "fault:%s" % self.fault
                detail = "pc=0x%x" % j.pc
            elif not self.returned:
                outcome = "fault:stopped without returning"
                detail = "pc=0x%x" % j.pc
        res = dict(outcome=outcome, detail=detail, steps=self.steps)
        if outcome == "ok":
            if t["bits"] == 64:
                lo = getattr(cpu, t["ret32"])
                ret = lo if ret64 else lo & 0xffffffff
            elif ret64:
                ret = (getattr(cpu, t["ret"][1]) << 32) | (getattr(cpu, t["ret"][0]) & 0xffffffff)
            else:
                ret = getattr(cpu, t["ret32"]) & 0xffffffff
            res["ret"] = ret
            res["mem"] = unpack_mem(vm.get_mem(MEM_BASE, S_SIZE), t["big"])
            res["sp_ok"] = getattr(cpu, t["sp"]) == sp
        return res

    def executed_mnemonics(self):
        """names of the instructions of every block whose first address was executed"""
        names = {}
        jit = self.jitter.jit
        for pc in self.pcs:
            lk = self.loc_db.get_offset_location(pc)
            blk = jit.loc_key_to_block.get(lk) if lk is not None else None
            if blk is None:
                continue
            for line in blk.lines:
                names[line.name] = names.get(line.name, 0) + 1
        return names

    def undecodable_delay_slot(self, code):
        """delay-slot architectures: is there a branch whose delay slot miasm cannot decode?  The branch
        then cannot be executed as the processor does (the property quantifies over decodable instructions)"""
        from miasm.core.bin_stream import bin_stream_str
        if not getattr(self.machine.mn, "delayslot", 0):
            return False
        bs = bin_stream_str(code, base_address=0)
        attrib = self.machine.dis_engine(bs, loc_db=self.loc_db).attrib
        off, after_branch = 0, False
        while off < len(code):
            try:
                ins = self.machine.mn.dis(bs, attrib, off)
            except Exception:
                if after_branch:
                    return True
                after_branch = False
                off += 4
                continue
            after_branch = bool(ins.breakflow())
            off += ins.l
        return False

    def disassembly(self, code, limit=200):
        """text of the loaded function as miasm decodes it (witness only)"""
        from miasm.core.bin_stream import bin_stream_str
        out = []
        bs = bin_stream_str(code, base_address=0)
        off = 0
        attrib = self.machine.dis_engine(bs, loc_db=self.loc_db).attrib
        while off < len(code) and len(out) < limit:
            try:
                ins = self.machine.mn.dis(bs, attrib, off)
            except Exception:
                out.append("%04x: <undecodable %s>" % (off, code[off:off + 4].hex()))
                off += 2 if self.target == "thumb" else 4
                continue
            out.append("%04x: %s" % (off, ins))
            off += ins.l
        return out
