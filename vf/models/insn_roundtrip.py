"""Shared driver of C15 (asm candidates decode back) and C16 (text parses back).

Both iterate over the shared instruction corpus (insn_corpus) in every arch/mode, decode each
candidate with mn.dis at offset 0 (no label substitution: PC-relative operands stay the integers
the decoder produced, which is what the repository's own test/arch scripts do) and then run the
property's round trip.
"""
import sys
import traceback

from vf import common
from vf.models import cpulimit
from vf.models import insn_corpus as ic

NSHARDS = 16


def shards(tier, seed, scale, per_arch, walk, pid):
    """per_arch: seed-dependent candidates per arch/mode; walk: {tier: (rounds, stride)}"""
    seed = ic.stream_index(pid, tier, seed)
    per = max(5, int(per_arch[tier] * scale / NSHARDS))
    rounds, stride = walk[tier]
    if scale < 1:
        stride = stride * max(1, int(round(1 / scale)))     # development aid
    return common.mk_shards(NSHARDS, seed, tier, per_shard=per, scale=1.0,
                            walk_rounds=ic.walk_rounds(rounds), walk_stride=stride)


def _site(tb):
    """innermost miasm frame of a traceback: 'arch/x/arch.py:function'"""
    site = "?"
    for fr in traceback.extract_tb(tb):
        if "/miasm/" in fr.filename:
            site = "%s:%s" % (fr.filename.split("/miasm/")[-1], fr.name)
    return site


def _asm(spec, instr, loc_db):
    """('ok', [bytes]) | ('no_encoding', msg) | ('raises:<T>', msg)"""
    try:
        vals = spec.mn.asm(instr, loc_db)
    except cpulimit.CpuTimeout:
        raise
    except ValueError as exc:
        if exc.args and isinstance(exc.args[0], str) and exc.args[0].startswith("cannot asm"):
            return "no_encoding", common.short(exc, 200)
        return "asm_raises:ValueError@%s" % _site(sys.exc_info()[2]), common.short(exc, 200)
    except Exception as exc:
        return "asm_raises:%s@%s" % (type(exc).__name__, _site(sys.exc_info()[2])), common.short(repr(exc), 200)
    vals = list(vals)
    if not vals:
        return "no_encoding", "asm returned no candidate"
    return "ok", vals


class _Null(object):
    def count(self, *a, **k):
        pass


def check_c15(spec, instr, rec):
    """every encoding proposed by mn.asm(instr) decodes to the same instruction, right length"""
    from miasm.core.locationdb import LocationDB
    out = []
    st, vals = _asm(spec, instr, LocationDB())
    if st != "ok":
        rec.count("%s:%s" % (spec.name, st.split(":")[0]))
        return [(st, vals, None)]
    rec.count("%s:asm_ok" % spec.name)
    rec.count("candidates", len(vals))
    if bytes(instr.b) in [bytes(v) for v in vals]:
        rec.count("original_among_candidates")
    for enc in vals:
        enc = bytes(enc)
        rec.count("%s:cand" % spec.name)
        d, err = ic.decode(spec, enc + b"\0" * 0, 0)
        if d is None and err == "order_dependent":
            rec.count("cand_order_dependent_skipped")      # see insn_corpus.x86_order_dependent
            continue
        if d is None:
            out.append(("enc_undecodable", "candidate %s does not decode (%s)" % (ic.hexs(enc), err), enc))
            continue
        if d.l != len(enc):
            out.append(("enc_length", "candidate %s (%d bytes) decodes with length %d as %s" % (
                ic.hexs(enc), len(enc), d.l, d), enc))
            continue
        if not ic.same_instr(instr, d):
            if d.name != instr.name:
                # the mnemonic the candidates collapse to is the mechanism (CMPccPS -> CMPEQPS: predicate lost)
                kind = "enc_other_mnemonic:->" + ic.base_mnemonic(spec, d)
            elif d.mode != instr.mode:
                kind = "enc_other_mode"
            else:
                kind = "enc_other_operands:" + ic.args_diff_sig(instr.args, d.args)
            out.append((kind, "candidate %s decodes to %s %r" % (ic.hexs(enc), d, [repr(a) for a in d.args]), enc))
    return out


def check_imm_boundaries(spec, instr, rec):
    """Boundary-directed immediates (random bytes reach them with probability 2^-33): every
    immediate of the decoded instruction is replaced in turn by the values at the encoding
    boundaries (insn_corpus.boundary_values) and the result given to mn.asm.  The variant is an
    'instruction obtained by decoding' as soon as one proposed encoding decodes back to exactly
    it; then every other proposed encoding must too (same oracle as check_c15).  Variants the
    assembler cannot encode, or that no candidate confirms, are counted, not judged."""
    from miasm.core.locationdb import LocationDB
    out = []
    for idx, size, build in ic.imm_sites(instr):
        for v in ic.boundary_values(size):
            try:
                args = list(instr.args)
                args[idx] = build(v)
                if args[idx] == instr.args[idx]:
                    continue
                var = spec.mn.instruction(instr.name, instr.mode, args, additional_info=instr.additional_info)
                var.offset, var.l = 0, instr.l
            except Exception:
                rec.count("imm:unbuildable")
                continue
            rec.count("imm:variants")
            st, vals = _asm(spec, var, LocationDB())
            if st != "ok":
                rec.count("imm:" + st.split(":")[0].split("@")[0])
                continue
            decoded = []
            for enc in vals:
                enc = bytes(enc)
                d, err = ic.decode(spec, enc, 0)
                if d is None and err == "order_dependent":
                    rec.count("cand_order_dependent_skipped")
                    continue
                decoded.append((enc, d, err))
            if not any(d is not None and d.l == len(enc) and ic.same_instr(var, d) for enc, d, err in decoded):
                rec.count("imm:unconfirmed")
                continue
            rec.count("imm:confirmed")
            rec.count("%s:imm_confirmed" % spec.name)
            for enc, d, err in decoded:
                if d is None:
                    out.append(("imm_boundary enc_undecodable", "variant %s: candidate %s does not decode (%s)" % (
                        var, ic.hexs(enc), err), enc))
                elif d.l != len(enc):
                    out.append(("imm_boundary enc_length", "variant %s: candidate %s decodes with length %d" % (
                        var, ic.hexs(enc), d.l), enc))
                elif not ic.same_instr(var, d):
                    sig = "mnemonic->" + ic.base_mnemonic(spec, d) if d.name != var.name else \
                        ic.args_diff_sig(var.args, d.args)
                    out.append(("imm_boundary enc_other:" + sig, "variant %s (another candidate decodes back to it): "
                                "candidate %s decodes to %s" % (var, ic.hexs(enc), d), enc))
    return out


def check_c16(spec, instr, rec):
    """str(instr) parses back to an instruction that prints identically and whose encodings
    decode to the same text"""
    from miasm.core.locationdb import LocationDB
    loc_db = LocationDB()
    text = str(instr)
    try:
        parsed = spec.mn.fromstring(text, loc_db, spec.mode)
    except cpulimit.CpuTimeout:
        raise
    except Exception as exc:
        rec.count("%s:parse_fail" % spec.name)
        return [("parse_raises:%s" % type(exc).__name__, "fromstring(%r) raises %s" % (
            text, common.short(repr(exc), 200)), None)]
    rec.count("%s:parsed" % spec.name)
    try:
        text2 = str(parsed)
    except Exception as exc:
        return [("reprint_raises:%s" % type(exc).__name__, "printing the parsed instruction raises %r" % (exc,), None)]
    if text2 != text:
        try:
            sig = ic.args_diff_sig(instr.args, parsed.args) if not ic.same_instr(instr, parsed) or \
                list(instr.args) != list(parsed.args) else "same_operands"
            if parsed.name != instr.name:
                sig = "mnemonic"
        except Exception:
            sig = "?"
        return [("reprint_differs:" + sig, "parsed instruction prints %r" % text2, None)]
    rec.count("%s:reprint_same" % spec.name)
    # One defect is reported once: when the decoded instruction itself fails the C15 round trip
    # (no candidate, assembler crash, candidate decoding to something else) the encoding half of
    # C16 would only repeat that finding; C16 then stands on its text half (parse + reprint).
    if check_c15(spec, instr, _Null()):
        rec.count("%s:encoding_defect_left_to_C15" % spec.name)
        rec.count("%s:roundtrip_ok" % spec.name)
        return []
    st, vals = _asm(spec, parsed, loc_db)
    if st != "ok":
        return [("parsed_" + st, "assembling the parsed instruction: %s" % (vals,), None)]
    out = []
    for enc in vals:
        enc = bytes(enc)
        rec.count("%s:cand" % spec.name)
        d, err = ic.decode(spec, enc, 0)
        if d is None and err == "order_dependent":
            rec.count("cand_order_dependent_skipped")
            continue
        if d is None:
            out.append(("enc_undecodable", "encoding %s of the parsed text does not decode (%s)" % (ic.hexs(enc), err), enc))
            continue
        try:
            dt = str(d)
        except Exception as exc:
            dt = "<%r>" % (exc,)
        if dt != text or d.l != len(enc):
            out.append(("enc_differs", "encoding %s of the parsed text decodes to %r (length %d)" % (
                ic.hexs(enc), dt, d.l), enc))
    if not out:
        rec.count("%s:roundtrip_ok" % spec.name)
    return out


def make_key(spec, instr, name, kind, enc=None):
    """finding key = mechanism.
    * assembler crashes: exception type and crash site;
    * parse failures: the operand form (shape) the printer emits and the parser rejects;
    * a candidate decoding to other operands: structural signature of the difference (x86), to
      another mnemonic: the mnemonic it collapses to;
    * x86 candidates that do not decode / decode with another length: how the candidate's prefixes
      differ from the decoded bytes (the assembler's prefix variants are the mechanism);
    * other x86 failures of a prefixed instruction: dominant prefix class of the decoded bytes
      (g1 = lock/rep/repne > o = 66 > a = 67 > seg > rex);
    * otherwise the operand codec chain of the table class (shared by the mnemonics generated from
      one template), or the mnemonic when it cannot be determined.  SH4 'no encoding' is keyed by
      operand shape: a dozen table classes decode to the same odd operand form."""
    fam = spec.family
    if kind.startswith("imm_boundary "):
        # deterministic part of the corpus: narrow key (codec chain of the class + what differs)
        return "%s [%s] %s" % (fam, ic.codec_sig(spec, instr) or name, kind)
    if kind.startswith(("asm_raises:", "parsed_asm_raises:")):
        return "%s %s" % (fam, kind)
    if kind.startswith("reprint_differs:"):
        # keyed by how the parsed operands differ from the decoded ones
        return "%s %s" % (fam, kind)
    if kind.startswith(("parse_raises:", "reprint_raises:")):
        # the printer/parser pair fails on an operand *form*, whatever the mnemonic
        return "%s %s shape=%s" % (fam, kind, ic.operand_shape(instr))
    if kind.startswith("enc_other_mnemonic:"):
        return "%s %s" % (fam, kind)
    if fam.startswith("x86"):
        if kind.startswith("enc_other_operands:"):
            return "%s %s" % (fam, kind)
        if kind in ("enc_undecodable", "enc_length") and enc:
            return "%s %s %s" % (fam, kind, ic.x86_prefix_delta(instr.b, enc, spec.mode))
        pfx = ic.x86_prefix_class(instr.b, spec.mode)
        if pfx:
            return "%s pfx[%s] %s" % (fam, pfx, kind)
    if kind.startswith("enc_other_operands:"):
        kind = "enc_other_operands"
    if fam == "sh4" and kind in ("no_encoding", "parsed_no_encoding"):
        return "%s %s shape=%s" % (fam, kind, ic.operand_shape(instr))
    # the operand codec chain of the table class (shared by the mnemonics generated from one
    # template) names the encode/decode code at fault better than the mnemonic does
    sig = ic.codec_sig(spec, instr)
    if sig is not None:
        return "%s [%s] %s" % (fam, sig, kind)
    return "%s %s %s" % (fam, name, kind)


def run(params, rec, which):
    common.quiet()
    ic.enable_pycache()
    cpulimit.install()
    rng = common.rng_for(params)
    n = params["n"]
    fn = check_c15 if which == "C15" else check_c16
    for spec in ic.SPECS:
        walk = (params["shard"], params["nshards"], params.get("walk_rounds", 1), params.get("walk_stride", 1))
        for data, origin in ic.stream(spec, rng, params["seed"] * 64 + params["shard"], n, walk):
            if not ic.selected(spec):
                continue
            instr, err = ic.decode(spec, data, 0)
            if instr is None:
                rec.count("%s:undecodable" % spec.name)
                if err not in ("Disasm_Exception", "IOError", "no_instr"):
                    rec.count("dis_raises:%s:%s" % (spec.family, err))
                continue
            try:
                text = str(instr)
            except Exception as exc:
                rec.count("%s:unprintable" % spec.name)
                if which == "C16":
                    rec.ev()
                    rec.fail("%s %s print_raises:%s" % (spec.family, ic.base_mnemonic(spec, instr), type(exc).__name__),
                             "printing the decoded instruction raises %r" % (exc,),
                             dict(arch=spec.name, bytes=ic.hexs(data)))
                    continue
                text = "<unprintable>"
            rec.ev()
            rec.count("%s:decoded" % spec.name)
            rec.count("origin:" + origin)
            name = ic.base_mnemonic(spec, instr)
            rec.count("mn:%s:%s" % (spec.family, name))
            rec.distinct("%s/%s/%s" % (spec.name, instr.name, ic.operand_kinds(instr)))
            try:
                with cpulimit.cpu_limit(30):
                    fails = fn(spec, instr, rec)
                if which == "C15" and origin in ("walk0", "walk1"):
                    with cpulimit.cpu_limit(60):
                        fails = list(fails) + check_imm_boundaries(spec, instr, rec)
            except cpulimit.CpuTimeout:
                rec.count("case_timeout")
                continue
            if not fails and len(rec.samples) < 3:
                rec.sample(dict(arch=spec.name, bytes=ic.hexs(instr.b), text=text))
            seen = set()
            for kind, what, enc in fails:
                key = make_key(spec, instr, name, kind, enc if which == "C15" else None)
                if key in seen:
                    continue
                seen.add(key)
                rec.fail(key, "%s [%s]: %s" % (text, ic.hexs(instr.b), what),
                         dict(arch=spec.name, mode=str(spec.mode), bytes=ic.hexs(data), instr=text,
                              length=instr.l, args=[repr(a) for a in instr.args], origin=origin,
                              candidate=ic.hexs(enc) if enc else None))


def floors(tier, counters, evaluations, which):
    miss = []
    for spec in ic.SPECS:
        dec = counters.get("%s:decoded" % spec.name, 0)
        if dec < 100:
            miss.append("%s: only %d instructions decoded" % (spec.name, dec))
            continue
        if which == "C15":
            ok = counters.get("%s:asm_ok" % spec.name, 0)
            if ok < 0.7 * dec:
                miss.append("%s: only %d of %d decoded instructions got a candidate (< 70%%)" % (spec.name, ok, dec))
        else:
            ok = counters.get("%s:roundtrip_ok" % spec.name, 0)
            if ok < 0.5 * dec:
                miss.append("%s: only %d of %d texts round-tripped (< 50%%)" % (spec.name, ok, dec))
    return miss
