"""Shared driver of C15 (asm candidates decode back) and C16 (text parses back).

Both iterate over the shared instruction corpus (insn_corpus) in every arch/mode, decode each
candidate with mn.dis at offset 0 (no label substitution: PC-relative operands stay the integers
the decoder produced, which is what the repository's own test/arch scripts do) and then run the
property's round trip.
"""
from vf import common
from vf.models import insn_corpus as ic

NSHARDS = 16


def shards(tier, seed, scale, per_arch):
    per = max(10, int(per_arch[tier] * scale / NSHARDS))
    return common.mk_shards(NSHARDS, seed, tier, per_shard=per, scale=1.0)


def _asm(spec, instr, loc_db):
    """('ok', [bytes]) | ('no_encoding', msg) | ('raises:<T>', msg)"""
    try:
        vals = spec.mn.asm(instr, loc_db)
    except common.CaseTimeout:
        raise
    except ValueError as exc:
        if exc.args and isinstance(exc.args[0], str) and exc.args[0].startswith("cannot asm"):
            return "no_encoding", common.short(exc, 200)
        return "asm_raises:ValueError", common.short(exc, 200)
    except Exception as exc:
        return "asm_raises:%s" % type(exc).__name__, common.short(repr(exc), 200)
    vals = list(vals)
    if not vals:
        return "no_encoding", "asm returned no candidate"
    return "ok", vals


def check_c15(spec, instr, rec):
    """every encoding proposed by mn.asm(instr) decodes to the same instruction, right length"""
    from miasm.core.locationdb import LocationDB
    out = []
    st, vals = _asm(spec, instr, LocationDB())
    if st != "ok":
        rec.count("%s:%s" % (spec.name, st.split(":")[0]))
        return [(st, vals, None)]
    rec.count("%s:asm_ok" % spec.name)
    rec.count("candidates", len(vals))
    if bytes(instr.b) in [bytes(v) for v in vals]:
        rec.count("original_among_candidates")
    for enc in vals:
        enc = bytes(enc)
        rec.count("%s:cand" % spec.name)
        d, err = ic.decode(spec, enc + b"\0" * 0, 0)
        if d is None:
            out.append(("enc_undecodable", "candidate %s does not decode (%s)" % (ic.hexs(enc), err), enc))
            continue
        if d.l != len(enc):
            out.append(("enc_length", "candidate %s (%d bytes) decodes with length %d as %s" % (
                ic.hexs(enc), len(enc), d.l, d), enc))
            continue
        if not ic.same_instr(instr, d):
            if d.name != instr.name:
                kind = "enc_other_mnemonic"
            elif d.mode != instr.mode:
                kind = "enc_other_mode"
            else:
                kind = "enc_other_operands"
            out.append((kind, "candidate %s decodes to %s %r" % (ic.hexs(enc), d, [repr(a) for a in d.args]), enc))
    return out


def check_c16(spec, instr, rec):
    """str(instr) parses back to an instruction that prints identically and whose encodings
    decode to the same text"""
    from miasm.core.locationdb import LocationDB
    loc_db = LocationDB()
    text = str(instr)
    try:
        parsed = spec.mn.fromstring(text, loc_db, spec.mode)
    except common.CaseTimeout:
        raise
    except Exception as exc:
        rec.count("%s:parse_fail" % spec.name)
        return [("parse_raises:%s" % type(exc).__name__, "fromstring(%r) raises %s" % (
            text, common.short(repr(exc), 200)), None)]
    rec.count("%s:parsed" % spec.name)
    try:
        text2 = str(parsed)
    except Exception as exc:
        return [("reprint_raises:%s" % type(exc).__name__, "printing the parsed instruction raises %r" % (exc,), None)]
    if text2 != text:
        return [("reprint_differs", "parsed instruction prints %r" % text2, None)]
    rec.count("%s:reprint_same" % spec.name)
    st, vals = _asm(spec, parsed, loc_db)
    if st != "ok":
        return [("parsed_" + st, "assembling the parsed instruction: %s" % (vals,), None)]
    out = []
    for enc in vals:
        enc = bytes(enc)
        rec.count("%s:cand" % spec.name)
        d, err = ic.decode(spec, enc, 0)
        if d is None:
            out.append(("enc_undecodable", "encoding %s of the parsed text does not decode (%s)" % (ic.hexs(enc), err), enc))
            continue
        try:
            dt = str(d)
        except Exception as exc:
            dt = "<%r>" % (exc,)
        if dt != text or d.l != len(enc):
            out.append(("enc_differs", "encoding %s of the parsed text decodes to %r (length %d)" % (
                ic.hexs(enc), dt, d.l), enc))
    if not out:
        rec.count("%s:roundtrip_ok" % spec.name)
    return out


def run(params, rec, which):
    common.quiet()
    common.install_case_timer()
    rng = common.rng_for(params)
    n = params["n"]
    fn = check_c15 if which == "C15" else check_c16
    for spec in ic.SPECS:
        corpus = ic.Corpus(spec, rng, index=params["seed"] * 64 + params["shard"])
        done = tries = 0
        while done < n and tries < 6 * n:
            tries += 1
            data, origin = corpus.next()
            instr, err = ic.decode(spec, data, 0)
            if instr is None:
                rec.count("%s:undecodable" % spec.name)
                if err not in ("Disasm_Exception", "IOError", "no_instr"):
                    rec.count("dis_raises:%s:%s" % (spec.family, err))
                continue
            try:
                text = str(instr)
            except Exception as exc:
                rec.count("%s:unprintable" % spec.name)
                if which == "C16":
                    done += 1
                    rec.ev()
                    rec.fail("%s %s print_raises:%s" % (spec.family, ic.base_mnemonic(spec, instr), type(exc).__name__),
                             "printing the decoded instruction raises %r" % (exc,),
                             dict(arch=spec.name, bytes=ic.hexs(data)))
                    continue
                text = "<unprintable>"
            done += 1
            rec.ev()
            rec.count("%s:decoded" % spec.name)
            rec.count("origin:" + origin)
            name = ic.base_mnemonic(spec, instr)
            rec.count("mn:%s:%s" % (spec.family, name))
            rec.distinct("%s/%s/%s" % (spec.name, instr.name, ic.operand_kinds(instr)))
            try:
                with common.time_limit(30):
                    fails = fn(spec, instr, rec)
            except common.CaseTimeout:
                rec.count("case_timeout")
                continue
            if not fails and len(rec.samples) < 3:
                rec.sample(dict(arch=spec.name, bytes=ic.hexs(instr.b), text=text))
            seen = set()
            for kind, what, enc in fails:
                key = "%s %s %s" % (spec.family, name, kind)
                if key in seen:
                    continue
                seen.add(key)
                rec.fail(key, "%s [%s]: %s" % (text, ic.hexs(instr.b), what),
                         dict(arch=spec.name, mode=str(spec.mode), bytes=ic.hexs(data), instr=text,
                              length=instr.l, args=[repr(a) for a in instr.args], origin=origin,
                              candidate=ic.hexs(enc) if enc else None))


def floors(tier, counters, evaluations, which):
    miss = []
    for spec in ic.SPECS:
        dec = counters.get("%s:decoded" % spec.name, 0)
        if dec < 100:
            miss.append("%s: only %d instructions decoded" % (spec.name, dec))
            continue
        if which == "C15":
            ok = counters.get("%s:asm_ok" % spec.name, 0)
            if ok < 0.7 * dec:
                miss.append("%s: only %d of %d decoded instructions got a candidate (< 70%%)" % (spec.name, ok, dec))
        else:
            ok = counters.get("%s:roundtrip_ok" % spec.name, 0)
            if ok < 0.5 * dec:
                miss.append("%s: only %d of %d texts round-tripped (< 50%%)" % (spec.name, ok, dec))
    return miss
