"""Shared instruction corpus for C14-C17 (per-architecture decoders, assemblers, lifters).

Candidates are 16-byte strings produced by four generators:

  rand   uniform random bytes
  strat  stratified enumeration of the opcode space: x86 = all (byte0, byte1) pairs visited by a
         counter (optionally behind random legacy/REX prefixes); fixed width ISAs = the top 12
         and low 11 bits of the first unit visited by counters, the rest random
  tmpl   template-directed: one class of the decoder's mnemonic table is picked (round robin
         over the whole table), its constant bits are laid down and every free field is random.
         Only the *generator* looks at miasm's tables; a candidate is used only if mn.dis accepts it.
  cur    byte strings scraped at run time from /repo/test/arch/*/arch.py (and the MeP assembler
         tests), as they are or with one to three random bit flips
  walk   seed-independent walk over every class of the decoder table (see walk_items)

Everything is deterministic for a given random.Random.
"""
import glob
import importlib
import os
import re
import struct

REPO = os.environ.get("VERIF_REPO", "/repo")
TESTS = "/repo/test/arch"   # curated vectors always come from the real repository (tests are not code under test)


def enable_pycache():
    """The runner forbids writing bytecode next to the sources (nothing may be written under
    /repo), so every worker would recompile miasm's big arch tables (seconds per worker).  Let the
    workers of one run share compiled bytecode inside the run's scratch directory instead."""
    import sys
    d = os.environ.get("VERIF_SCRATCH_DIR")
    if d and os.path.isdir(d):
        sys.pycache_prefix = os.path.join(d, "pycache")
        sys.dont_write_bytecode = False


class Spec(object):
    def __init__(self, name, family, archmod, mn, mode, semmod, lifter, unit, endian, maxlen, ref=None):
        self.name = name          # Machine name
        self.family = family      # key prefix (no endianness: a finding is a property of the table)
        self.archmod = archmod
        self.mnname = mn
        self.mode = mode
        self.semmod = semmod
        self.liftername = lifter
        self.unit = unit          # code unit in bytes (byte order applies inside a unit)
        self.endian = endian      # 'l' / 'b' byte order of a unit in memory
        self.maxlen = maxlen
        self.ref = ref            # reference disassembler description (C17)
        self._mn = None
        self._lifter = None

    @property
    def mn(self):
        if self._mn is None:
            self._mn = getattr(importlib.import_module(self.archmod), self.mnname)
        return self._mn

    @property
    def lifter_cls(self):
        if self._lifter is None and self.semmod:
            self._lifter = getattr(importlib.import_module(self.semmod), self.liftername)
        return self._lifter

    def regs_module(self):
        return self.mn.regs


_S = Spec
SPECS = [
    _S("x86_16", "x86_16", "miasm.arch.x86.arch", "mn_x86", 16, "miasm.arch.x86.sem", "Lifter_X86_16", 1, "l", 15),
    _S("x86_32", "x86_32", "miasm.arch.x86.arch", "mn_x86", 32, "miasm.arch.x86.sem", "Lifter_X86_32", 1, "l", 15),
    _S("x86_64", "x86_64", "miasm.arch.x86.arch", "mn_x86", 64, "miasm.arch.x86.sem", "Lifter_X86_64", 1, "l", 15),
    _S("arml", "arm", "miasm.arch.arm.arch", "mn_arm", "l", "miasm.arch.arm.sem", "Lifter_Arml", 4, "l", 4),
    _S("armb", "arm", "miasm.arch.arm.arch", "mn_arm", "b", "miasm.arch.arm.sem", "Lifter_Armb", 4, "b", 4),
    _S("armtl", "armt", "miasm.arch.arm.arch", "mn_armt", "l", "miasm.arch.arm.sem", "Lifter_Armtl", 2, "l", 4),
    _S("armtb", "armt", "miasm.arch.arm.arch", "mn_armt", "b", "miasm.arch.arm.sem", "Lifter_Armtb", 2, "b", 4),
    _S("aarch64l", "aarch64", "miasm.arch.aarch64.arch", "mn_aarch64", "l", "miasm.arch.aarch64.sem", "Lifter_Aarch64l", 4, "l", 4),
    _S("aarch64b", "aarch64", "miasm.arch.aarch64.arch", "mn_aarch64", "b", "miasm.arch.aarch64.sem", "Lifter_Aarch64b", 4, "b", 4),
    _S("mips32l", "mips32", "miasm.arch.mips32.arch", "mn_mips32", "l", "miasm.arch.mips32.sem", "Lifter_Mips32l", 4, "l", 4),
    _S("mips32b", "mips32", "miasm.arch.mips32.arch", "mn_mips32", "b", "miasm.arch.mips32.sem", "Lifter_Mips32b", 4, "b", 4),
    _S("ppc32b", "ppc32", "miasm.arch.ppc.arch", "mn_ppc", "b", "miasm.arch.ppc.sem", "Lifter_PPC32b", 4, "b", 4),
    _S("msp430", "msp430", "miasm.arch.msp430.arch", "mn_msp430", None, "miasm.arch.msp430.sem", "Lifter_MSP430", 2, "l", 6),
    _S("mepl", "mep", "miasm.arch.mep.arch", "mn_mep", "l", "miasm.arch.mep.sem", "Lifter_MEPl", 2, "l", 4),
    _S("mepb", "mep", "miasm.arch.mep.arch", "mn_mep", "b", "miasm.arch.mep.sem", "Lifter_MEPb", 2, "b", 4),
    _S("sh4", "sh4", "miasm.arch.sh4.arch", "mn_sh4", None, None, None, 2, "l", 2),
]
BY_NAME = dict((s.name, s) for s in SPECS)
LIFTED = [s.name for s in SPECS if s.semmod]
REFERENCED = ["x86_16", "x86_32", "x86_64", "arml", "armb", "armtl", "armtb", "aarch64l", "aarch64b",
              "mips32l", "mips32b", "ppc32b"]
BIG = ["x86_16", "x86_32", "x86_64", "arml", "armb", "armtl", "armtb", "aarch64l", "aarch64b",
       "mips32l", "mips32b", "ppc32b"]

ARM_COND = ['EQ', 'NE', 'CS', 'CC', 'MI', 'PL', 'VS', 'VC', 'HI', 'LS', 'GE', 'LT', 'GT', 'LE', '']


def units_swap(data, unit):
    """reverse the bytes of every `unit`-sized chunk (big endian bit order <-> little endian memory)"""
    if unit == 1:
        return data
    out = bytearray()
    for i in range(0, len(data) - len(data) % unit, unit):
        out += data[i:i + unit][::-1]
    out += data[len(data) - len(data) % unit:]
    return bytes(out)


def to_mem(spec, be):
    """bytes in architectural (most significant byte first per unit) order -> memory image"""
    return units_swap(be, spec.unit) if spec.endian == "l" else be


def from_mem(spec, mem):
    return units_swap(mem, spec.unit) if spec.endian == "l" else mem


def base_mnemonic(spec, instr):
    """mnemonic used in finding keys.  ARM names carry the condition as an infix (1500 names for
    ~100 operations); the condition (known from additional_info.cond) is removed so that the key
    set saturates."""
    name = instr.name
    if spec.family == "arm":
        cond = getattr(getattr(instr, "additional_info", None), "cond", None)
        if isinstance(cond, int) and 0 <= cond < 14:
            cs = ARM_COND[cond]
            k = name.rfind(cs)
            if k > 0:
                name = name[:k] + name[k + 2:]
    elif spec.family == "armt" and name.startswith("IT") and set(name[2:]) <= set("TE"):
        name = "IT"
    return name


# --------------------------------------------------------------------- curated vectors
_HEX = r'["\']([0-9a-fA-F ]+)["\']'


def _scrape(path, pattern, flags=re.S):
    try:
        txt = open(path).read()
    except OSError:
        return []
    return re.findall(pattern, txt, flags)


def _unhex(s):
    s = s.replace(" ", "")
    if len(s) % 2 or not s:
        return None
    try:
        return bytes(bytearray.fromhex(s))
    except ValueError:
        return None


_CUR = {}


def curated(spec):
    """list of memory images taken from the repository's own test vectors for this arch/mode"""
    if spec.name in _CUR:
        return _CUR[spec.name]
    out = []
    fam = spec.family
    if fam.startswith("x86"):
        for mode, hx in _scrape(TESTS + "/x86/arch.py",
                                r'\(\s*m(16|32|64)\s*,\s*"[^"\n]*"\s*,\s*' + _HEX + r'\s*\)'):
            if int(mode) == spec.mode:
                out.append(_unhex(hx))
    elif fam in ("arm", "armt"):
        try:
            txt = open(TESTS + "/arm/arch.py").read()
        except OSError:
            txt = ""
        cut = txt.find("reg_tests_armt = [")
        part = txt[:cut] if fam == "arm" else txt[cut:]
        for hx in re.findall(r'\(\s*"[^"\n]*"\s*,\s*' + _HEX + r'\s*\)', part, re.S):
            b = _unhex(hx)      # written for mode 'l'
            if b is not None:
                out.append(b if spec.endian == "l" else units_swap(b, spec.unit))
    elif fam in ("aarch64", "mips32", "msp430", "sh4"):
        written = {"aarch64": "l", "mips32": "b", "msp430": "l", "sh4": "l"}[fam]
        for hx in _scrape(TESTS + "/%s/arch.py" % fam, r'\(\s*["\'][^"\'\n]*["\']\s*,\s*' + _HEX + r'\s*\)'):
            b = _unhex(hx)
            if b is not None:
                out.append(b if spec.endian == written else units_swap(b, spec.unit))
    elif fam == "ppc32":
        for hx in _scrape(TESTS + "/ppc32/arch.py", r"\(\s*'b'\s*,\s*\"[^\"\n]*\"\s*,\s*" + _HEX + r"\s*\)"):
            out.append(_unhex(hx))
    elif fam == "mep":
        for path in sorted(glob.glob(TESTS + "/mep/asm/test_*.py")):
            for hx in _scrape(path, r'check_instruction\(\s*"[^"\n]*"\s*,\s*' + _HEX):
                b = _unhex(hx)      # written for mode 'b'
                if b is not None:
                    out.append(b if spec.endian == "b" else units_swap(b, spec.unit))
    out = [b for b in out if b]
    _CUR[spec.name] = out
    return out


# --------------------------------------------------------------------- template generator
_TMPL = {}


def _templates(spec):
    """[(fixed_mask_bits as list of (value or None, length))] for every class of the table"""
    if spec.name in _TMPL:
        return _TMPL[spec.name]
    out = []
    try:
        classes = list(spec.mn.all_mn)
    except Exception:
        classes = []
    for c in classes:
        fields = []
        try:
            for f in c.fields:
                l = f.l
                sb = getattr(f, "strbits", None) or ""
                fname = getattr(f, "fname", None)
                if l is None:
                    fields.append((None, None, fname))
                elif l and sb and len(sb) == l and set(sb) <= set("01"):
                    fields.append((int(sb, 2), l, fname))
                else:
                    fields.append((None, l, fname))
        except Exception:
            continue
        out.append(fields)
    _TMPL[spec.name] = out
    return out


def _from_template(spec, fields, rng, force=None):
    acc, n = 0, 0
    for val, l, fname in fields:
        if l is None:
            break
        if not l:
            continue
        if val is None and force and fname in force:
            val = force[fname] & ((1 << l) - 1)
        if val is None:
            # free field: random, with a bias to the boundary values of register/immediate fields
            r = rng.random()
            if r < 0.08:
                val = 0
            elif r < 0.16:
                val = (1 << l) - 1
            else:
                val = rng.getrandbits(l)
        acc = (acc << l) | val
        n += l
    pad = (-n) % 8
    acc <<= pad
    n += pad
    return acc.to_bytes(n // 8, "big") if n else b""


X86_PREFIXES = [0x66, 0x67, 0xF2, 0xF3, 0xF0, 0x2E, 0x36, 0x3E, 0x26, 0x64, 0x65]
X86_SEG = [0x2E, 0x36, 0x3E, 0x26, 0x64, 0x65]
# (weight, prefix bytes; None = a segment override, "r" = 1-3 random prefixes)
X86_PFX_COMBOS = [(40, ()), (12, (0x66,)), (8, (0x67,)), (6, (0xF2,)), (6, (0xF3,)), (4, (0xF0,)), (6, (None,)),
                  (4, (0x66, 0x67)), (2, (0x66, 0xF2)), (2, (0x66, 0xF3)), (2, (0xF2, None)), (1, (0xF3, None)),
                  (2, (None, 0x66)), (5, "r")]
_X86_PFX_TOTAL = sum(w for w, _ in X86_PFX_COMBOS)


def x86_prefix(rng, mode):
    """prefix bytes of a template candidate: the operand/address-size and repeat prefixes are drawn
    from a small weighted set so that every (table class, prefix class) pair is visited often"""
    r = rng.randrange(_X86_PFX_TOTAL)
    for w, combo in X86_PFX_COMBOS:
        if r < w:
            break
        r -= w
    if combo == "r":
        out = [rng.choice(X86_PREFIXES) for _ in range(rng.choice((1, 2, 2, 3)))]
    else:
        out = [rng.choice(X86_SEG) if b is None else b for b in combo]
    if mode == 64:
        r = rng.random()
        if r < 0.2:
            out.append(0x48)
        elif r < 0.45:
            out.append(0x40 | rng.getrandbits(4))
    return bytes(bytearray(out))


class Corpus(object):
    """Stream of candidates for one arch/mode.  `index` offsets the counters so that shards and
    seeds visit different strata."""

    def __init__(self, spec, rng, index=0, mix=None):
        self.spec = spec
        self.rng = rng
        self.k = index * 7919
        self.mix = mix or (("tmpl", 0.40), ("strat", 0.22), ("cur", 0.20), ("rand", 0.18))
        self.cur = curated(spec)
        self.tmpl = _templates(spec)
        self.t = rng.randrange(1 << 30)

    def _pad(self, b):
        b = bytes(b[:16])
        return b + bytes(bytearray(self.rng.getrandbits(8) for _ in range(16 - len(b))))

    def rand(self):
        return self._pad(b"")

    def strat(self):
        rng, spec = self.rng, self.spec
        self.k += 1
        k = self.k
        if spec.unit == 1:
            two = (k * 40503) & 0xFFFF          # odd multiplier: a permutation of all byte pairs
            body = bytes(bytearray([two >> 8, two & 0xFF]))
            pre = b""
            if rng.random() < 0.35:
                npre = rng.choice((1, 1, 1, 2, 2, 3))
                pre = bytes(bytearray(rng.choice(X86_PREFIXES) for _ in range(npre)))
            if spec.mode == 64 and rng.random() < 0.3:
                pre += bytes(bytearray([0x40 | rng.getrandbits(4)]))
            return self._pad(pre + body)
        nbits = 8 * (4 if spec.unit == 4 else 2)
        top = (k * 2731) & 0xFFF
        low = (k * 1367) & 0x7FF
        if nbits == 32:
            w = (top << 20) | (rng.getrandbits(9) << 11) | low
            if rng.random() < 0.5:
                w = (top << 20) | rng.getrandbits(20)
            be = w.to_bytes(4, "big")
        else:
            w = (k * 40503) & 0xFFFF
            be = w.to_bytes(2, "big")
        return self._pad(to_mem(spec, be))

    def template(self):
        if not self.tmpl:
            return self.rand()
        self.t += 1
        fields = self.tmpl[self.t % len(self.tmpl)]
        spec = self.spec
        force = None
        if spec.unit == 1:
            # x86: register form / the three memory forms of ModRM equally often
            force = {"mod": self.rng.choice((3, 3, 0, 1, 2))}
        try:
            be = _from_template(spec, fields, self.rng, force)
        except Exception:
            return self.rand()
        if spec.unit == 1:
            return self._pad(x86_prefix(self.rng, spec.mode) + be)
        be = be + b"\0" * ((-len(be)) % spec.unit)
        full = self._pad(b"")
        mem = to_mem(spec, be)
        return (mem + full)[:16]

    def curated_vec(self):
        if not self.cur:
            return self.rand()
        b = bytearray(self.rng.choice(self.cur))
        r = self.rng.random()
        if r >= 0.4:
            for _ in range(self.rng.choice((1, 1, 2, 3))):
                i = self.rng.randrange(len(b) * 8)
                b[i // 8] ^= 1 << (i % 8)
        return self._pad(bytes(b))

    def next(self):
        r = self.rng.random()
        acc = 0.0
        for name, p in self.mix:
            acc += p
            if r < acc:
                break
        if name == "tmpl":
            return self.template(), "tmpl"
        if name == "strat":
            return self.strat(), "strat"
        if name == "cur":
            return self.curated_vec(), "cur"
        return self.rand(), "rand"


# --------------------------------------------------------------------- deterministic table walk
# A seed-independent part of every run: each class of the decoder table is instantiated a fixed
# number of times (fields drawn from a PRNG seeded by the class index only; x86: a fixed list of
# prefix classes x register/memory ModRM forms).  It makes the frequent findings and any break of a
# table class visible in every run, whatever VERIF_SEED; the seed-dependent generators explore
# beyond it.
WALK_K = {"x86_16": 10, "x86_32": 10, "x86_64": 10, "arm": 1, "armt": 6, "aarch64": 8, "mips32": 6,
          "ppc32": 3, "msp430": 20, "mep": 6, "sh4": 4}
X86_WALK_PFX = [(), (0x66,), (0x67,), (0xF3,)]
# variants 8 and 9 of every x86 class: the size prefixes repeated (a repeated prefix means what one means)
X86_WALK_PFX_REPEATED = [(0x66, 0x66), (0x67, 0x67)]


# The seed-dependent generators draw from a *closed* set of streams: every stream has been swept
# on the tree the known findings were collected on, so a VERIF_SEED outside 0..N-1 cannot bring up
# a key nobody has looked at (it re-runs stream VERIF_SEED mod N).
STREAMS = {"quick": {"C14": 21, "C15": 21, "C16": 13, "C17": 21},
           "thorough": {"C14": 4, "C15": 4, "C16": 2, "C17": 4}}


def stream_index(pid, tier, seed):
    return int(seed) % STREAMS[tier][pid]


def selected(spec):
    """development aid: VERIF_ONLY_ARCH=aarch64l,aarch64b re-sweeps some arch/modes only; the
    candidates of the others are still drawn (same PRNG stream) but not processed"""
    only = os.environ.get("VERIF_ONLY_ARCH")
    return not only or spec.name in only.split(",")


def walk_rounds(n):
    """development aid: VERIF_NOWALK=1 runs only the seed-dependent part (key collection over many
    seeds); the seed-dependent candidates do not depend on the walk, so they are the same ones"""
    return 0 if os.environ.get("VERIF_NOWALK") else n


def _free_fields(fields):
    return [i for i, (val, l, fname) in enumerate(fields) if val is None and l]


def walk_items(spec, rounds=1, stride=1):
    """[(class index, variant, round)].  Round 0 starts with the *boundary variants* of every
    class: all free fields zero, all ones, and each free field in turn zero / all ones with the
    others random (rA=0, displacement 0, register 15/31, immediate -1 ... are where the
    value-dependent defects live); then WALK_K random variants per class and round.
    `stride` subsamples (C16)."""
    tmpl = _templates(spec)
    ncls = len(tmpl)
    k = WALK_K[spec.family]
    items = []
    for ci in range(ncls):
        items.append((ci, "z", 0))
        items.append((ci, "o", 0))
        free = _free_fields(tmpl[ci])
        if spec.family == "arm" and ci % 15:
            continue            # condition-expanded table: per-field variants for one condition in 15
        if spec.unit == 1:
            free = [i for i in free if tmpl[ci][i][2] in ("reg", "rm")]     # x86: the ModRM register fields
        for fi in free[:8]:
            items.append((ci, "f%d.0" % fi, 0))
            items.append((ci, "f%d.1" % fi, 0))
    items += [(ci, v, r) for r in range(rounds) for v in range(k) for ci in range(ncls)]
    if stride > 1:
        items = items[::stride]
    return items


def walk_candidate(spec, ci, v, rnd):
    import random
    rng = random.Random("walk/%s/%d/%s/%d" % (spec.family, ci, v, rnd))
    fields = _templates(spec)[ci]
    force = {}
    pre = b""
    fill = None
    if isinstance(v, str):
        # boundary variant
        if v == "z":
            fill = 0
        elif v == "o":
            fill = 1
        else:
            fi, bit = v[1:].split(".")
            fi = int(fi)
            fields = list(fields)
            l = fields[fi][1]
            fields[fi] = ((1 << l) - 1 if bit == "1" else 0, l, fields[fi][2])
        if spec.unit == 1:
            force["mod"] = 3 if ci % 2 == 0 else 1
            if spec.mode == 64 and v in ("o",):
                pre = b"\x48"
        if fill is not None:
            fields = [((((1 << l) - 1) if fill else 0) if (val is None and l and not (spec.unit == 1 and fname == "mod")) else val,
                       l, fname) for (val, l, fname) in fields]
    elif spec.unit == 1 and v >= 2 * len(X86_WALK_PFX):
        force = {"mod": 3 if (ci + rnd) % 2 == 0 else (ci + rnd) % 3}
        pre = bytes(bytearray(X86_WALK_PFX_REPEATED[(v - 2 * len(X86_WALK_PFX)) % len(X86_WALK_PFX_REPEATED)]))
    elif spec.unit == 1:
        force = {"mod": 3 if (v // len(X86_WALK_PFX)) % 2 == 0 else (ci + rnd) % 3}
        pre = bytes(bytearray(X86_WALK_PFX[v % len(X86_WALK_PFX)]))
        if spec.mode == 64 and (v + rnd) % 2 == 1:
            pre += bytes(bytearray([0x48 if (v + rnd) % 4 == 1 else 0x40 | rng.getrandbits(4)]))
    try:
        be = _from_template(spec, fields, rng, force or None)
    except Exception:
        be = b""
    if fill is not None:
        tail = bytes(bytearray([0xFF if fill else 0] * 16))
    else:
        tail = bytes(bytearray(rng.getrandbits(8) for _ in range(16)))
    if spec.unit == 1:
        return (pre + be + tail)[:16]
    be = be + b"\0" * ((-len(be)) % spec.unit)
    return (to_mem(spec, be) + tail)[:16]


def stream(spec, rng, index, n_random, walk=None):
    """candidates of one shard: its share of the deterministic walk, then n_random seed-dependent
    candidates.  walk = (shard, nshards, rounds, stride) or None.  Yields (bytes, origin)."""
    if walk is not None and walk[2] > 0:      # rounds == 0 (VERIF_NOWALK): seed-dependent part only
        shard, nshards, rounds, stride = walk
        for j, (ci, v, r) in enumerate(walk_items(spec, rounds, stride)):
            if j % nshards == shard:
                # 'walk0' / 'walk1': the all-zeros / all-ones variant of a class (one each per class)
                yield walk_candidate(spec, ci, v, r), ("walk0" if v == "z" else "walk1" if v == "o" else "walk")
    corpus = Corpus(spec, rng, index=index)
    for _ in range(n_random):
        yield corpus.next()


# --------------------------------------------------------------------- decoding helpers
def x86_order_dependent(data, mode):
    """x86 byte strings whose decoding by mn.dis is not a function of the bytes: a 0F-map opcode
    behind an operand-size prefix 66 that is not the last legacy prefix (66 F2 0F 2C ..., 66 2E 0F
    ...).  The table classes with a mandatory 66 prefix rewrite the *shared* pre_dis_info['opmode']
    while the candidates are tried, so the operand size the other candidates see depends on the
    iteration order of a set of classes and on what was decoded before (observed: CVTTSD2SI EAX vs
    AX for the same bytes).  Such candidates are left out of the verdicts of C14-C17 and counted."""
    raw = bytearray(data)
    i = 0
    seen66 = False
    last = None
    while i < len(raw) and raw[i] in _X86_LEGACY:
        if raw[i] == 0x66:
            seen66 = True
        last = raw[i]
        i += 1
    if not seen66 or last == 0x66:
        return False
    if mode == 64:
        while i < len(raw) and 0x40 <= raw[i] <= 0x4F:
            i += 1
    return i < len(raw) and raw[i] == 0x0F


def decode(spec, data, addr=0):
    """(instr, None) or (None, reason).  The bytes are mapped at `addr`.

    Every candidate is decoded twice; when the two results differ (mn.dis keeps state in the shared
    table-class instances), or the bytes are of the x86 family described in x86_order_dependent,
    the candidate is reported as 'order_dependent' and not used: verdicts and finding keys must not
    depend on the order of the corpus or on the memory layout of the process."""
    from miasm.core.bin_stream import bin_stream_str
    from miasm.core.cpu import Disasm_Exception
    if spec.unit == 1 and x86_order_dependent(data, spec.mode):
        return None, "order_dependent"
    first = None
    try:
        first = spec.mn.dis(bin_stream_str(data, base_address=addr), spec.mode, addr)
    except Exception:
        pass
    try:
        bs = bin_stream_str(data, base_address=addr)
        instr = spec.mn.dis(bs, spec.mode, addr)
    except Disasm_Exception:
        return None, "Disasm_Exception" if first is None else "order_dependent"
    except IOError:
        return None, "IOError"
    except Exception as exc:     # other decoder exceptions are counted by the checks (not a verdict of C14-C17)
        return None, type(exc).__name__
    if instr is None or not instr.l or instr.l > len(data):
        return None, "no_instr"
    if first is None or first.l != instr.l or not same_instr(first, instr):
        return None, "order_dependent"
    return instr, None


def operand_kinds(instr):
    out = []
    for a in instr.args:
        k = type(a).__name__[4:]
        out.append("%s%d" % (k, a.size))
    return "/".join(out)


def same_instr(a, b):
    return a.name == b.name and a.mode == b.mode and len(a.args) == len(b.args) and \
        all(x == y for x, y in zip(a.args, b.args))


def hexs(b):
    return "".join("%02x" % c for c in bytearray(b))


_X86_LEGACY = {0x66: "o", 0x67: "a", 0xF0: "lock", 0xF2: "repne", 0xF3: "rep", 0x2E: "seg", 0x36: "seg",
               0x3E: "seg", 0x26: "seg", 0x64: "seg", 0x65: "seg"}


def x86_prefix_class(raw, mode):
    """dominant prefix class of the bytes of an x86 instruction (computed from the bytes, not from
    miasm): 'g1' (lock/rep/repne) > 'o' (66) > 'a' (67) > 'seg' > 'rex' > '' """
    seen = set()
    i = 0
    raw = bytearray(raw)
    while i < len(raw) and raw[i] in _X86_LEGACY:
        seen.add(_X86_LEGACY[raw[i]])
        i += 1
    if seen & {"lock", "rep", "repne"}:
        return "g1"
    for k in ("o", "a", "seg"):
        if k in seen:
            return k
    if mode == 64 and i < len(raw) and 0x40 <= raw[i] <= 0x4F:
        return "rex"
    return ""


def x86_prefix_set(raw, mode):
    """set of prefix kinds present: g1 (lock/rep/repne), o, a, seg, rex"""
    seen = set()
    i = 0
    raw = bytearray(raw)
    while i < len(raw) and raw[i] in _X86_LEGACY:
        k = _X86_LEGACY[raw[i]]
        seen.add("g1" if k in ("lock", "rep", "repne") else k)
        i += 1
    if mode == 64 and i < len(raw) and 0x40 <= raw[i] <= 0x4F:
        seen.add("rex")
    return seen


def x86_prefix_delta(orig, cand, mode):
    """how the prefixes of a proposed encoding differ from the decoded bytes: 'cand+a', 'cand-rex+o', 'same'"""
    a, b = x86_prefix_set(orig, mode), x86_prefix_set(cand, mode)
    out = ["+" + k for k in sorted(b - a)] + ["-" + k for k in sorted(a - b)]
    return "cand" + "".join(out) if out else "same_prefixes"


def x86_strip_legacy(raw, only=None):
    """remove the legacy prefixes (all of them, or only the kinds in `only`, e.g. lock/rep/repne)"""
    raw = bytearray(raw)
    i = 0
    keep = bytearray()
    while i < len(raw) and raw[i] in _X86_LEGACY:
        if only is not None and _X86_LEGACY[raw[i]] not in only:
            keep.append(raw[i])
        i += 1
    return bytes(keep + raw[i:])


def _k(e):
    return "%s%d" % (type(e).__name__[4:], e.size)


def diff_sig(a, b, inptr=False):
    """abstract description of the first structural difference of two operand expressions"""
    suffix = "@ptr" if inptr else ""
    if type(a) is not type(b) or a.size != b.size:
        return "%s!=%s%s" % (_k(a), _k(b), suffix)
    if a == b:
        return None
    if a.is_int():
        return "%s value%s" % (_k(a), suffix)
    if a.is_id() or a.is_loc():
        return "%s name%s" % (_k(a), suffix)
    if a.is_mem():
        return diff_sig(a.ptr, b.ptr, True) or "Mem?"
    if a.is_op():
        if a.op != b.op:
            return "Op %s!=%s%s" % (a.op, b.op, suffix)
        if len(a.args) != len(b.args):
            return "Op %s arity%s" % (a.op, suffix)
        for x, y in zip(a.args, b.args):
            d = diff_sig(x, y, inptr)
            if d:
                return d
        return "Op?"
    if a.is_slice():
        if (a.start, a.stop) != (b.start, b.stop):
            return "Slice bounds%s" % suffix
        return diff_sig(a.arg, b.arg, inptr) or "Slice?"
    if a.is_compose():
        if len(a.args) != len(b.args):
            return "Compose arity%s" % suffix
        for x, y in zip(a.args, b.args):
            d = diff_sig(x, y, inptr)
            if d:
                return d
        return "Compose?"
    if a.is_cond():
        for x, y in ((a.cond, b.cond), (a.src1, b.src1), (a.src2, b.src2)):
            d = diff_sig(x, y, inptr)
            if d:
                return d
    return "?"


def args_diff_sig(a_args, b_args):
    if len(a_args) != len(b_args):
        return "nargs"
    for x, y in zip(a_args, b_args):
        d = diff_sig(x, y)
        if d:
            return d
    return "?"


def _shape(e, depth=0):
    # sizes are left out on purpose: the printer/parser grammar does not depend on them
    if e.is_id():
        return "Id"
    if e.is_int():
        return "Int"
    if e.is_loc():
        return "Loc"
    if depth >= 3:
        return type(e).__name__[4:]
    if e.is_mem():
        return "Mem[%s]" % _shape(e.ptr, depth + 1)
    if e.is_op():
        return "%s(%s)" % (e.op, ",".join(_shape(a, depth + 1) for a in e.args))
    if e.is_slice():
        return "%s[%d:%d]" % (_shape(e.arg, depth + 1), e.start, e.stop)
    if e.is_compose():
        return "{%s}" % ",".join(_shape(a, depth + 1) for a in e.args)
    if e.is_cond():
        return "Cond"
    return type(e).__name__


def operand_shape(instr):
    """operand structure without register names, values or sizes: 'Id/Mem[+(Id,Int)]'"""
    return "/".join(_shape(a) for a in instr.args) or "-"


def codec_sig(spec, instr):
    """operand codec chain of the table class that decodes these bytes: the names of the field
    classes (arch/*/arch.py) that carry operands, e.g. 'ppc_crfreg+ppc_s14imm_branch'.  Mnemonics
    generated from one table template (condition codes, link/absolute bits, ALU groups) share it,
    and it names the encode/decode code a finding lives in.  Derived from miasm's own tables, used
    only to *name* findings; None when it cannot be determined."""
    try:
        from miasm.core.bin_stream import bin_stream_str
        mn = spec.mn
        bs = bin_stream_str(bytes(instr.b) + b"\0" * 16)
        pre_dis_info, bs2, mode, offset, _ = mn.pre_dis(bs, spec.mode, 0)
        sigs = set()
        for c in mn.guess_mnemo(bs2, mode, pre_dis_info, offset):
            if getattr(c, "name", None) != instr.name:
                continue
            names = []
            for f in c.fields:
                cl = getattr(f, "cls", None)
                if cl and cl[0].__name__ != "bs_fbit":      # x86 prefix pseudo-fields
                    names.append(cl[0].__name__)
            sigs.add("+".join(names) or "-")
        if sigs:
            return sorted(sigs)[0]
    except Exception:
        pass
    return None


def boundary_values(size):
    """immediates at the encoding boundaries of a `size`-bit operand: 0, 1, 2^(k-1)-1, 2^(k-1),
    2^k-1, 2^k for k = 8, 16, 32 and the sign-extension boundaries (-2^(k-1), -2^(k-1)-1, -1 as
    `size`-bit values)"""
    out = set([0, 1])
    top = 1 << size
    for k in (8, 16, 32):
        for v in ((1 << (k - 1)) - 1, 1 << (k - 1), (1 << k) - 1, 1 << k):
            if v < top:
                out.add(v)
        if k < size:
            out.add(top - (1 << (k - 1)))
            out.add(top - (1 << (k - 1)) - 1)
    out.add(top - 1)
    out.add(top >> 1)
    out.add((top >> 1) - 1)
    return sorted(out)


def imm_sites(instr):
    """[(operand index, size, build(value) -> new operand)] for the immediates of an instruction:
    integer operands, absolute addresses and the displacement of a base+displacement operand"""
    from miasm.expression.expression import ExprInt, ExprMem, ExprOp
    out = []
    for i, a in enumerate(instr.args):
        if a.is_int():
            out.append((i, a.size, lambda v, a=a: ExprInt(v, a.size)))
        elif a.is_mem():
            p = a.ptr
            if p.is_int():
                out.append((i, p.size, lambda v, a=a, p=p: ExprMem(ExprInt(v, p.size), a.size)))
            elif p.is_op("+") and p.args[-1].is_int():
                out.append((i, p.size, lambda v, a=a, p=p: ExprMem(
                    ExprOp("+", *(list(p.args[:-1]) + [ExprInt(v, p.size)])), a.size)))
    return out
