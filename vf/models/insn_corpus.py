"""Shared instruction corpus for C14-C17 (per-architecture decoders, assemblers, lifters).

Candidates are 16-byte strings produced by four generators:

  rand   uniform random bytes
  strat  stratified enumeration of the opcode space: x86 = all (byte0, byte1) pairs visited by a
         counter (optionally behind random legacy/REX prefixes); fixed width ISAs = the top 12
         and low 11 bits of the first unit visited by counters, the rest random
  tmpl   template-directed: one class of the decoder's mnemonic table is picked (round robin
         over the whole table), its constant bits are laid down and every free field is random.
         Only the *generator* looks at miasm's tables; a candidate is used only if mn.dis accepts it.
  cur    byte strings scraped at run time from /repo/test/arch/*/arch.py (and the MeP assembler
         tests), as they are or with one to three random bit flips

Everything is deterministic for a given random.Random.
"""
import glob
import importlib
import os
import re
import struct

REPO = os.environ.get("VERIF_REPO", "/repo")
TESTS = "/repo/test/arch"   # curated vectors always come from the real repository (tests are not code under test)


class Spec(object):
    def __init__(self, name, family, archmod, mn, mode, semmod, lifter, unit, endian, maxlen, ref=None):
        self.name = name          # Machine name
        self.family = family      # key prefix (no endianness: a finding is a property of the table)
        self.archmod = archmod
        self.mnname = mn
        self.mode = mode
        self.semmod = semmod
        self.liftername = lifter
        self.unit = unit          # code unit in bytes (byte order applies inside a unit)
        self.endian = endian      # 'l' / 'b' byte order of a unit in memory
        self.maxlen = maxlen
        self.ref = ref            # reference disassembler description (C17)
        self._mn = None
        self._lifter = None

    @property
    def mn(self):
        if self._mn is None:
            self._mn = getattr(importlib.import_module(self.archmod), self.mnname)
        return self._mn

    @property
    def lifter_cls(self):
        if self._lifter is None and self.semmod:
            self._lifter = getattr(importlib.import_module(self.semmod), self.liftername)
        return self._lifter

    def regs_module(self):
        return self.mn.regs


_S = Spec
SPECS = [
    _S("x86_16", "x86_16", "miasm.arch.x86.arch", "mn_x86", 16, "miasm.arch.x86.sem", "Lifter_X86_16", 1, "l", 15),
    _S("x86_32", "x86_32", "miasm.arch.x86.arch", "mn_x86", 32, "miasm.arch.x86.sem", "Lifter_X86_32", 1, "l", 15),
    _S("x86_64", "x86_64", "miasm.arch.x86.arch", "mn_x86", 64, "miasm.arch.x86.sem", "Lifter_X86_64", 1, "l", 15),
    _S("arml", "arm", "miasm.arch.arm.arch", "mn_arm", "l", "miasm.arch.arm.sem", "Lifter_Arml", 4, "l", 4),
    _S("armb", "arm", "miasm.arch.arm.arch", "mn_arm", "b", "miasm.arch.arm.sem", "Lifter_Armb", 4, "b", 4),
    _S("armtl", "armt", "miasm.arch.arm.arch", "mn_armt", "l", "miasm.arch.arm.sem", "Lifter_Armtl", 2, "l", 4),
    _S("armtb", "armt", "miasm.arch.arm.arch", "mn_armt", "b", "miasm.arch.arm.sem", "Lifter_Armtb", 2, "b", 4),
    _S("aarch64l", "aarch64", "miasm.arch.aarch64.arch", "mn_aarch64", "l", "miasm.arch.aarch64.sem", "Lifter_Aarch64l", 4, "l", 4),
    _S("aarch64b", "aarch64", "miasm.arch.aarch64.arch", "mn_aarch64", "b", "miasm.arch.aarch64.sem", "Lifter_Aarch64b", 4, "b", 4),
    _S("mips32l", "mips32", "miasm.arch.mips32.arch", "mn_mips32", "l", "miasm.arch.mips32.sem", "Lifter_Mips32l", 4, "l", 4),
    _S("mips32b", "mips32", "miasm.arch.mips32.arch", "mn_mips32", "b", "miasm.arch.mips32.sem", "Lifter_Mips32b", 4, "b", 4),
    _S("ppc32b", "ppc32", "miasm.arch.ppc.arch", "mn_ppc", "b", "miasm.arch.ppc.sem", "Lifter_PPC32b", 4, "b", 4),
    _S("msp430", "msp430", "miasm.arch.msp430.arch", "mn_msp430", None, "miasm.arch.msp430.sem", "Lifter_MSP430", 2, "l", 6),
    _S("mepl", "mep", "miasm.arch.mep.arch", "mn_mep", "l", "miasm.arch.mep.sem", "Lifter_MEPl", 2, "l", 4),
    _S("mepb", "mep", "miasm.arch.mep.arch", "mn_mep", "b", "miasm.arch.mep.sem", "Lifter_MEPb", 2, "b", 4),
    _S("sh4", "sh4", "miasm.arch.sh4.arch", "mn_sh4", None, None, None, 2, "l", 2),
]
BY_NAME = dict((s.name, s) for s in SPECS)
LIFTED = [s.name for s in SPECS if s.semmod]
REFERENCED = ["x86_16", "x86_32", "x86_64", "arml", "armb", "armtl", "armtb", "aarch64l", "aarch64b",
              "mips32l", "mips32b", "ppc32b"]
BIG = ["x86_16", "x86_32", "x86_64", "arml", "armb", "armtl", "armtb", "aarch64l", "aarch64b",
       "mips32l", "mips32b", "ppc32b"]

ARM_COND = ['EQ', 'NE', 'CS', 'CC', 'MI', 'PL', 'VS', 'VC', 'HI', 'LS', 'GE', 'LT', 'GT', 'LE', '']


def units_swap(data, unit):
    """reverse the bytes of every `unit`-sized chunk (big endian bit order <-> little endian memory)"""
    if unit == 1:
        return data
    out = bytearray()
    for i in range(0, len(data) - len(data) % unit, unit):
        out += data[i:i + unit][::-1]
    out += data[len(data) - len(data) % unit:]
    return bytes(out)


def to_mem(spec, be):
    """bytes in architectural (most significant byte first per unit) order -> memory image"""
    return units_swap(be, spec.unit) if spec.endian == "l" else be


def from_mem(spec, mem):
    return units_swap(mem, spec.unit) if spec.endian == "l" else mem


def base_mnemonic(spec, instr):
    """mnemonic used in finding keys.  ARM names carry the condition as an infix (1500 names for
    ~100 operations); the condition (known from additional_info.cond) is removed so that the key
    set saturates."""
    name = instr.name
    if spec.family == "arm":
        cond = getattr(getattr(instr, "additional_info", None), "cond", None)
        if isinstance(cond, int) and 0 <= cond < 14:
            cs = ARM_COND[cond]
            k = name.rfind(cs)
            if k > 0:
                name = name[:k] + name[k + 2:]
    elif spec.family == "armt" and name.startswith("IT") and set(name[2:]) <= set("TE"):
        name = "IT"
    return name


# --------------------------------------------------------------------- curated vectors
_HEX = r'["\']([0-9a-fA-F ]+)["\']'


def _scrape(path, pattern, flags=re.S):
    try:
        txt = open(path).read()
    except OSError:
        return []
    return re.findall(pattern, txt, flags)


def _unhex(s):
    s = s.replace(" ", "")
    if len(s) % 2 or not s:
        return None
    try:
        return bytes(bytearray.fromhex(s))
    except ValueError:
        return None


_CUR = {}


def curated(spec):
    """list of memory images taken from the repository's own test vectors for this arch/mode"""
    if spec.name in _CUR:
        return _CUR[spec.name]
    out = []
    fam = spec.family
    if fam.startswith("x86"):
        for mode, hx in _scrape(TESTS + "/x86/arch.py",
                                r'\(\s*m(16|32|64)\s*,\s*"[^"\n]*"\s*,\s*' + _HEX + r'\s*\)'):
            if int(mode) == spec.mode:
                out.append(_unhex(hx))
    elif fam in ("arm", "armt"):
        try:
            txt = open(TESTS + "/arm/arch.py").read()
        except OSError:
            txt = ""
        cut = txt.find("reg_tests_armt = [")
        part = txt[:cut] if fam == "arm" else txt[cut:]
        for hx in re.findall(r'\(\s*"[^"\n]*"\s*,\s*' + _HEX + r'\s*\)', part, re.S):
            b = _unhex(hx)      # written for mode 'l'
            if b is not None:
                out.append(b if spec.endian == "l" else units_swap(b, spec.unit))
    elif fam in ("aarch64", "mips32", "msp430", "sh4"):
        written = {"aarch64": "l", "mips32": "b", "msp430": "l", "sh4": "l"}[fam]
        for hx in _scrape(TESTS + "/%s/arch.py" % fam, r'\(\s*["\'][^"\'\n]*["\']\s*,\s*' + _HEX + r'\s*\)'):
            b = _unhex(hx)
            if b is not None:
                out.append(b if spec.endian == written else units_swap(b, spec.unit))
    elif fam == "ppc32":
        for hx in _scrape(TESTS + "/ppc32/arch.py", r"\(\s*'b'\s*,\s*\"[^\"\n]*\"\s*,\s*" + _HEX + r"\s*\)"):
            out.append(_unhex(hx))
    elif fam == "mep":
        for path in sorted(glob.glob(TESTS + "/mep/asm/test_*.py")):
            for hx in _scrape(path, r'check_instruction\(\s*"[^"\n]*"\s*,\s*' + _HEX):
                b = _unhex(hx)      # written for mode 'b'
                if b is not None:
                    out.append(b if spec.endian == "b" else units_swap(b, spec.unit))
    out = [b for b in out if b]
    _CUR[spec.name] = out
    return out


# --------------------------------------------------------------------- template generator
_TMPL = {}


def _templates(spec):
    """[(fixed_mask_bits as list of (value or None, length))] for every class of the table"""
    if spec.name in _TMPL:
        return _TMPL[spec.name]
    out = []
    try:
        classes = list(spec.mn.all_mn)
    except Exception:
        classes = []
    for c in classes:
        fields = []
        try:
            for f in c.fields:
                l = f.l
                sb = getattr(f, "strbits", None) or ""
                if l is None:
                    fields.append((None, None))
                elif l and sb and len(sb) == l and set(sb) <= set("01"):
                    fields.append((int(sb, 2), l))
                else:
                    fields.append((None, l))
        except Exception:
            continue
        out.append(fields)
    _TMPL[spec.name] = out
    return out


def _from_template(spec, fields, rng):
    acc, n = 0, 0
    for val, l in fields:
        if l is None:
            break
        if not l:
            continue
        if val is None:
            # free field: random, with a bias to the boundary values of register/immediate fields
            r = rng.random()
            if r < 0.08:
                val = 0
            elif r < 0.16:
                val = (1 << l) - 1
            else:
                val = rng.getrandbits(l)
        acc = (acc << l) | val
        n += l
    pad = (-n) % 8
    acc <<= pad
    n += pad
    return acc.to_bytes(n // 8, "big") if n else b""


X86_PREFIXES = [0x66, 0x67, 0xF2, 0xF3, 0xF0, 0x2E, 0x36, 0x3E, 0x26, 0x64, 0x65]


class Corpus(object):
    """Stream of candidates for one arch/mode.  `index` offsets the counters so that shards and
    seeds visit different strata."""

    def __init__(self, spec, rng, index=0, mix=None):
        self.spec = spec
        self.rng = rng
        self.k = index * 7919
        self.mix = mix or (("tmpl", 0.40), ("strat", 0.22), ("cur", 0.20), ("rand", 0.18))
        self.cur = curated(spec)
        self.tmpl = _templates(spec)
        self.t = rng.randrange(1 << 30)

    def _pad(self, b):
        b = bytes(b[:16])
        return b + bytes(bytearray(self.rng.getrandbits(8) for _ in range(16 - len(b))))

    def rand(self):
        return self._pad(b"")

    def strat(self):
        rng, spec = self.rng, self.spec
        self.k += 1
        k = self.k
        if spec.unit == 1:
            two = (k * 40503) & 0xFFFF          # odd multiplier: a permutation of all byte pairs
            body = bytes(bytearray([two >> 8, two & 0xFF]))
            pre = b""
            if rng.random() < 0.35:
                npre = rng.choice((1, 1, 1, 2, 2, 3))
                pre = bytes(bytearray(rng.choice(X86_PREFIXES) for _ in range(npre)))
            if spec.mode == 64 and rng.random() < 0.3:
                pre += bytes(bytearray([0x40 | rng.getrandbits(4)]))
            return self._pad(pre + body)
        nbits = 8 * (4 if spec.unit == 4 else 2)
        top = (k * 2731) & 0xFFF
        low = (k * 1367) & 0x7FF
        if nbits == 32:
            w = (top << 20) | (rng.getrandbits(9) << 11) | low
            if rng.random() < 0.5:
                w = (top << 20) | rng.getrandbits(20)
            be = w.to_bytes(4, "big")
        else:
            w = (k * 40503) & 0xFFFF
            be = w.to_bytes(2, "big")
        return self._pad(to_mem(spec, be))

    def template(self):
        if not self.tmpl:
            return self.rand()
        self.t += 1
        fields = self.tmpl[self.t % len(self.tmpl)]
        try:
            be = _from_template(self.spec, fields, self.rng)
        except Exception:
            return self.rand()
        spec = self.spec
        if spec.unit == 1:
            pre = b""
            if self.rng.random() < 0.3:
                pre = bytes(bytearray(self.rng.choice(X86_PREFIXES) for _ in range(self.rng.choice((1, 1, 2)))))
            if spec.mode == 64 and self.rng.random() < 0.3:
                pre += bytes(bytearray([0x40 | self.rng.getrandbits(4)]))
            return self._pad(pre + be)
        be = be + b"\0" * ((-len(be)) % spec.unit)
        full = self._pad(b"")
        mem = to_mem(spec, be)
        return (mem + full)[:16]

    def curated_vec(self):
        if not self.cur:
            return self.rand()
        b = bytearray(self.rng.choice(self.cur))
        r = self.rng.random()
        if r >= 0.4:
            for _ in range(self.rng.choice((1, 1, 2, 3))):
                i = self.rng.randrange(len(b) * 8)
                b[i // 8] ^= 1 << (i % 8)
        return self._pad(bytes(b))

    def next(self):
        r = self.rng.random()
        acc = 0.0
        for name, p in self.mix:
            acc += p
            if r < acc:
                break
        if name == "tmpl":
            return self.template(), "tmpl"
        if name == "strat":
            return self.strat(), "strat"
        if name == "cur":
            return self.curated_vec(), "cur"
        return self.rand(), "rand"


# --------------------------------------------------------------------- decoding helpers
def decode(spec, data, addr=0):
    """(instr, None) or (None, exception class name).  The bytes are mapped at `addr`."""
    from miasm.core.bin_stream import bin_stream_str
    from miasm.core.cpu import Disasm_Exception
    try:
        bs = bin_stream_str(data, base_address=addr)
        instr = spec.mn.dis(bs, spec.mode, addr)
    except Disasm_Exception:
        return None, "Disasm_Exception"
    except IOError:
        return None, "IOError"
    except Exception as exc:     # other decoder exceptions are counted by the checks (not a verdict of C14-C17)
        return None, type(exc).__name__
    if instr is None or not instr.l or instr.l > len(data):
        return None, "no_instr"
    return instr, None


def operand_kinds(instr):
    out = []
    for a in instr.args:
        k = type(a).__name__[4:]
        out.append("%s%d" % (k, a.size))
    return "/".join(out)


def same_instr(a, b):
    return a.name == b.name and a.mode == b.mode and len(a.args) == len(b.args) and \
        all(x == y for x, y in zip(a.args, b.args))


def hexs(b):
    return "".join("%02x" % c for c in bytearray(b))
