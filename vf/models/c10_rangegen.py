"""C10 helpers: expression generator restricted to what the range analysis
handles, concrete reference of the ModularIntervals operations, localisation of
the guilty sub-expression.  (Builds on vf/exprgen.py and vf/refsem.py without
changing them.)"""
from miasm.expression.expression import ExprInt, ExprOp, ExprId, ExprMem

from vf import exprgen, refsem

HANDLED_BIN = ['+', '&', '|', '^', '*', 'a>>', '<<', '>>', '>>>', '<<<']
# operators the generator may use; those without a handler exercise the
# "full domain" default of expr_range
GEN_OPS = HANDLED_BIN + ['-', '%', 'zeroExt', 'signExt', '==', '<u', '<s', '<=u', '<=s', 'parity',
                         'cntleadzeros', 'cnttrailzeros']


class RangeGen(exprgen.Gen):
    """exprgen.Gen with: unary '-' only (binary '-' is not an IR operator),
    '%' by a (mostly constant, mostly non-zero) modulus instead of the other
    divisions."""

    def __init__(self, rng, widths, **kw):
        kw.setdefault("ops", GEN_OPS)
        kw.setdefault("pow_op", False)
        kw.setdefault("flags", False)
        kw.setdefault("max_width", max(widths))
        exprgen.Gen.__init__(self, rng, widths=widths, **kw)

    def _try(self, kind, n, depth):
        r = self.rng
        d = depth - 1
        if n == 1 and kind < 0.35:
            return exprgen.Gen._try(self, kind, n, depth)
        if 0.30 <= kind < 0.36:
            return ExprOp('-', self.expr(n, d))
        if 0.48 <= kind < 0.53:
            p = r.random()
            if p < 0.04:
                mod = ExprInt(0, n)
            elif p < 0.80:
                mod = ExprInt(r.choice([1, 2, 3, 5, 7, 8, 10, (1 << n) - 1, (1 << (n - 1)), r.getrandbits(n) | 1])
                              & ((1 << n) - 1), n)
            elif p < 0.90:
                # a singleton range that is not a literal constant
                c = r.getrandbits(n)
                mod = ExprOp('&', ExprInt(c, n), ExprInt(c | r.getrandbits(n), n))
            else:
                mod = self.expr(n, d)
            return ExprOp('%', self.expr(n, d), mod)
        return exprgen.Gen._try(self, kind, n, depth)


def handler_of(e):
    """name of the expr_range branch that handles node @e"""
    if e.is_int():
        return "int"
    if e.is_id():
        return "id"
    if e.is_mem():
        return "mem"
    if e.is_slice():
        return "slice"
    if e.is_compose():
        return "compose"
    if e.is_cond():
        return "cond"
    if e.is_op():
        if e.op in HANDLED_BIN:
            return "op" + e.op
        if e.op == '-' and len(e.args) == 1:
            return "op-"
        if e.op == '%':
            return "op%"
        return "op_unhandled"
    return e.__class__.__name__


def walk(e, seen=None):
    """all sub-expressions (pointers of memory reads excluded: expr_range does
    not look into them)"""
    yield e
    if e.is_slice():
        for x in walk(e.arg):
            yield x
    elif e.is_compose() or e.is_op():
        for a in e.args:
            for x in walk(a):
                yield x
    elif e.is_cond():
        for a in (e.src1, e.src2):
            for x in walk(a):
                yield x


def free_symbols(e):
    """identifiers and memory reads whose value the assignment chooses"""
    ids, mems = set(), set()

    def rec(x):
        if x.is_id():
            ids.add(x)
        elif x.is_mem():
            mems.add(x)
            rec(x.ptr)
        elif x.is_slice():
            rec(x.arg)
        elif x.is_compose() or x.is_op():
            for a in x.args:
                rec(a)
        elif x.is_cond():
            rec(x.cond)
            rec(x.src1)
            rec(x.src2)
    rec(e)
    return sorted(ids, key=lambda i: (i.name, i.size)), mems


def member(mi, v):
    """v in ModularIntervals, read from the bounds directly"""
    for lo, hi in mi.intervals.intervals:
        if lo <= v <= hi:
            return True
    return False


def to_mask(mi):
    """bit set of the members of a ModularIntervals"""
    m = 0
    for lo, hi in mi.intervals.intervals:
        m |= (1 << (hi + 1)) - (1 << lo)
    return m


def concrete(op, w):
    """reference function (x, y) -> value of a ModularIntervals operation"""
    ev = refsem.eval_op
    return lambda x, y: ev(op, [x, y], [w, w], w)


def blame(e, env, expr_range):
    """smallest sub-expression of @e on the evaluated path whose concrete value
    is outside its own range while its evaluated operands are inside theirs;
    None if @e's value is inside its range.  Returns (node, value, range)."""
    try:
        v = refsem.evaluate(e, env)
    except refsem.Undef:
        return None
    rg = expr_range(e)
    if member(rg, v):
        return None
    if e.is_slice():
        kids = [e.arg]
    elif e.is_compose() or e.is_op():
        kids = list(e.args)
    elif e.is_cond():
        try:
            c = refsem.evaluate(e.cond, env)
        except refsem.Undef:
            return None
        kids = [e.src1 if c else e.src2]
    else:
        kids = []
    for k in kids:
        try:
            b = blame(k, env, expr_range)
        except Exception:
            b = None
        if b is not None:
            return b
    return e, v, rg
