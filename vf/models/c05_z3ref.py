"""C05 helper: an independent encoding of refsem's meaning in z3 bit-vector
terms, used only to cross-check the two references (refsem vs SMT-LIB bit-vector
semantics).  A disagreement is a harness error, never a verdict."""
import z3

from vf.models.xlate_common import kind


class NoEncoding(Exception):
    pass


def bv(v, n):
    return z3.BitVecVal(v, n)


def bit(c):
    return z3.If(c, bv(1, 1), bv(0, 1))


def mem_array(psize):
    # documented naming of Z3Mem: name + address size
    return z3.Array("mem%d" % psize, z3.BitVecSort(psize), z3.BitVecSort(8))


def encode(e, big_endian=False):
    if e.is_int():
        return bv(int(e), e.size)
    if e.is_id():
        return z3.BitVec(str(e), e.size)
    if e.is_slice():
        return z3.Extract(e.stop - 1, e.start, encode(e.arg, big_endian))
    if e.is_compose():
        parts = [encode(a, big_endian) for a in e.args]
        if len(parts) == 1:
            return parts[0]
        return z3.Concat(*reversed(parts))
    if e.is_cond():
        c = encode(e.cond, big_endian)
        return z3.If(c == bv(0, e.cond.size), encode(e.src2, big_endian), encode(e.src1, big_endian))
    if e.is_mem():
        ptr = encode(e.ptr, big_endian)
        ps = e.ptr.size
        arr = mem_array(ps)
        nbytes = (e.size + 7) // 8
        cells = [z3.Select(arr, ptr + bv(i, ps)) for i in range(nbytes)]
        if not big_endian:
            cells.reverse()
        val = cells[0] if nbytes == 1 else z3.Concat(*cells)
        if e.size % 8:
            val = z3.Extract(e.size - 1, 0, val)
        return val
    if not e.is_op():
        raise NoEncoding(repr(e))
    k = kind(e)
    args = [encode(a, big_endian) for a in e.args]
    n = e.args[0].size
    if k in ('+', '*', '^', '&', '|'):
        r = args[0]
        for a in args[1:]:
            r = {'+': lambda x, y: x + y, '*': lambda x, y: x * y, '^': lambda x, y: x ^ y,
                 '&': lambda x, y: x & y, '|': lambda x, y: x | y}[k](r, a)
        return r
    if k == 'neg':
        return bv(0, n) - args[0]
    if k == '-' and len(args) == 2:
        return args[0] - args[1]
    if len(args) == 2:
        a, b = args
        if k == '>>':
            return z3.LShR(a, b)  # SMT-LIB bvlshr: 0 once the count reaches the width
        if k == '<<':
            return a << b
        if k == 'a>>':
            return a >> b
        if k in ('<<<', '>>>'):
            if n == 1:
                return a
            # count modulo the width, computed in a width that can hold n
            w = max(n, n.bit_length() + 1)
            c = z3.URem(z3.ZeroExt(w - n, b), bv(n, w))
            aa = z3.ZeroExt(w - n, a) if w > n else a
            c2 = bv(n, w) - c
            if k == '<<<':
                r = (aa << c) | z3.LShR(aa, c2)
            else:
                r = z3.LShR(aa, c) | (aa << c2)
            return z3.Extract(n - 1, 0, r)
        if k in ('/', 'udiv'):
            return z3.UDiv(a, b)
        if k in ('%', 'umod'):
            return z3.URem(a, b)
        if k == 'sdiv':
            return a / b          # bvsdiv: truncation toward zero
        if k == 'smod':
            return z3.SRem(a, b)  # bvsrem: sign follows the dividend
        if k == '==':
            return bit(a == b)
        if k == '<u':
            return bit(z3.ULT(a, b))
        if k == '<=u':
            return bit(z3.ULE(a, b))
        if k == '<s':
            return bit(a < b)
        if k == '<=s':
            return bit(a <= b)
    if len(args) == 1:
        a = args[0]
        if k == 'zeroExt':
            return z3.ZeroExt(e.size - n, a)
        if k == 'signExt':
            return z3.SignExt(e.size - n, a)
        if k == 'parity':
            low = a if n <= 8 else z3.Extract(7, 0, a)
            r = bv(1, 1)
            for i in range(min(n, 8)):
                r = r ^ z3.Extract(i, i, low)
            return r
        if k == 'cntleadzeros':
            r = bv(n & ((1 << n) - 1), n)
            for i in range(n):            # highest set bit wins: apply lowest first
                r = z3.If(z3.Extract(i, i, a) == bv(1, 1), bv((n - 1 - i) & ((1 << n) - 1), n), r)
            return r
        if k == 'cnttrailzeros':
            r = bv(n & ((1 << n) - 1), n)
            for i in range(n - 1, -1, -1):  # lowest set bit wins: apply highest first
                r = z3.If(z3.Extract(i, i, a) == bv(1, 1), bv(i & ((1 << n) - 1), n), r)
            return r
    raise NoEncoding(k)
