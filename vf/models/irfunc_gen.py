"""Function-like IR graphs for the IR-analysis checks (C36 graph simplification,
C40 constant propagation).

Two sources of "complete functions":

* `FuncGen`: random *structured* IR over the register file of a real x86 lifter
  (if/else diamonds, if-then, bounded loops whose counter lives in a register
  nothing else writes -- trip count <= 8 by construction --, early exits to a
  shared epilogue, dead assignments, loads/stores at small offsets of pointer
  registers, constants flowing through registers and memory, calls modelled like
  `LifterModelCall.call_effects` does, ret-like leaves `IRDst = @[SP]; SP += n`).
* `AsmFuncGen`: x86_32/x86_64 functions written as assembly templates, assembled
  with miasm's own assembler, disassembled with its disassembler and lifted with
  `machine.lifter_model_call` (the path example/disasm/full.py takes).

Plus the comparison helpers shared by the two checks (`mkenv`, `observe`,
`out_reg_value`).  Nothing here changes vf.irgen / vf.irinterp."""
from miasm.expression.expression import (ExprInt, ExprId, ExprMem, ExprOp, ExprSlice, ExprCompose,
                                         ExprCond, ExprLoc, LocKey)
from miasm.ir.ir import AssignBlock, IRBlock, IRCFG

from vf import irgen, irinterp, refsem


# --------------------------------------------------------------------------
# contexts

class FCtx(irgen.Ctx):
    """irgen.Ctx with fresh LocationDB, loop-counter registers taken out of the
    pool the random assignments write to, and the model-call lifter as `.lifter`."""

    def __init__(self, machine_name="x86_32"):
        super(FCtx, self).__init__(machine_name)
        regs = self.lifter.arch.regs
        self.name = machine_name
        if machine_name == "x86_32":
            self.counters = [regs.EBX, regs.ECX]
            self.gpr = [regs.EAX, regs.EDX, regs.ESI, regs.EDI]
            self.bp = regs.EBP
        else:
            self.counters = [regs.R10, regs.R11, regs.R12]
            self.bp = regs.RBP
        self.lmc = self.lifter_model_call
        self.ret_reg = self.lmc.ret_reg
        self.word = self.bits // 8

    def all_regs(self):
        out = super(FCtx, self).all_regs()
        for r in self.counters:
            if r not in out:
                out.append(r)
        return out


# --------------------------------------------------------------------------
# structured random IR

class _B(object):
    __slots__ = ("loc", "abs", "term")

    def __init__(self, loc):
        self.loc = loc
        self.abs = []
        self.term = None


class FuncGen(object):
    """Build one function-like IRCFG.  `profile` tunes the mix:
       'simp'  : general (C36);   'cst' : more constants / load-store-use (C40)."""

    def __init__(self, rng, ctx, profile="simp", max_blocks=14, allow_incomplete_leaf=False):
        self.rng = rng
        self.ctx = ctx
        self.profile = profile
        self.max_blocks = max_blocks
        self.allow_incomplete_leaf = allow_incomplete_leaf
        self.g = irgen.IRGen(rng, ctx, mem=True, calls=False, div=False)
        self.blocks = []
        self.free_counters = list(ctx.counters)
        self.epilogue = None
        self.shape = []
        self.features = set()
        self.depth_expr = rng.choice([1, 1, 2, 2, 3]) if profile == "simp" else rng.choice([1, 1, 2])

    # ---- plumbing
    def new_block(self):
        b = _B(self.ctx.loc_db.add_location())
        self.blocks.append(b)
        return b

    def loc(self, b):
        return ExprLoc(b.loc, self.ctx.bits)

    def jump(self, b, target):
        assert b.term is None
        d = {self.ctx.IRDst: self.loc(target)}
        if self.rng.random() < 0.25:
            # like lifted code, the jump shares its (parallel) assignblock with other effects
            self.features.add("jump_with_effect")
            if self.rng.random() < 0.3:
                d[ExprMem(self.g.ptr(), 32)] = self.g.value(32, 1)
            else:
                dst = self.g.dst_reg(allow_sp=False)
                d[dst] = self.g.value(dst.size, 1)
        b.term = AssignBlock(d)

    def branch(self, b, cond, t, f, extra=None):
        assert b.term is None
        d = {self.ctx.IRDst: ExprCond(cond, self.loc(t), self.loc(f))}
        if extra:
            d.update(extra)
        b.term = AssignBlock(d)

    def room(self):
        return len(self.blocks) < self.max_blocks

    # ---- pieces of straight-line code
    def condition(self):
        r = self.rng
        k = r.random()
        g = self.g
        if k < 0.55:
            return g.value(1, self.depth_expr)
        if k < 0.7:
            return g.value(self.ctx.bits, 1)
        if k < 0.8:
            return r.choice(self.ctx.flags)
        w = r.choice([8, self.ctx.bits])
        return ExprOp(r.choice(['==', '<u', '<s']), g.value(w, 1), g.const(w))

    def straight(self, b, n=None):
        r = self.rng
        g = self.g
        n = n if n is not None else r.choice([1, 1, 2, 2, 3])
        for _ in range(n):
            k = r.random()
            cst_bias = 0.45 if self.profile == "cst" else 0.2
            if k < cst_bias:
                self.const_piece(b)
            elif k < cst_bias + 0.15:
                self.load_store_use(b)
            elif k < cst_bias + 0.22:
                self.copy_chain(b)
            else:
                b.abs.append(g.assignblk(self.depth_expr))

    def const_piece(self, b):
        """constants into registers / memory, later read back"""
        r = self.rng
        g = self.g
        self.features.add("const")
        k = r.random()
        if k < 0.5:
            d = g.dst_reg(allow_sp=False)
            b.abs.append(AssignBlock({d: g.const(d.size)}))
        elif k < 0.75:
            sz = r.choice([8, 16, 32])
            b.abs.append(AssignBlock({ExprMem(g.ptr(), sz): g.const(sz)}))
        else:
            d1, d2 = r.sample(self.ctx.gpr, 2)
            c = g.const(d1.size)
            b.abs.append(AssignBlock({d1: c}))
            b.abs.append(AssignBlock({d2: ExprOp(r.choice(['+', '^', '&']), d1, g.const(d1.size))}))

    def copy_chain(self, b):
        r = self.rng
        d1, d2 = r.sample(self.ctx.gpr, 2)
        src = r.choice(self.ctx.gpr + self.ctx.ptrs)
        self.features.add("copy")
        b.abs.append(AssignBlock({d1: src}))
        if r.random() < 0.5:
            b.abs.append(AssignBlock({src: self.g.value(src.size, 1)}) if src is not self.ctx.sp
                         else AssignBlock({d2: d1}))
        b.abs.append(AssignBlock({d2: d1 + ExprInt(r.choice([0, 1, 4, -1]), d1.size)}))

    def load_store_use(self, b):
        """reg = @[p]; @[q] = v (q == p, overlapping p, or other base); use of reg"""
        r = self.rng
        g = self.g
        self.features.add("load_store_use")
        sz = r.choice([8, 16, 32, 32, self.ctx.bits])
        p = g.ptr()
        d = r.choice(self.ctx.gpr)
        load = ExprMem(p, sz)
        if sz == d.size:
            b.abs.append(AssignBlock({d: load}))
        else:
            b.abs.append(AssignBlock({d: ExprOp(r.choice(['zeroExt_%d', 'signExt_%d']) % d.size, load)}))
        k = r.random()
        if k < 0.45:
            q = p
        elif k < 0.75:
            q = p + ExprInt(r.choice([1, -1, 2, -2, 3]), p.size) if not p.is_int() else p
        else:
            q = g.ptr()
        ssz = r.choice([8, 16, 32])
        val = g.const(ssz) if r.random() < 0.5 else g.value(ssz, 1)
        b.abs.append(AssignBlock({ExprMem(q, ssz): val}))
        k = r.random()
        d2 = r.choice([x for x in self.ctx.gpr if x is not d])
        if k < 0.4:
            b.abs.append(AssignBlock({d2: d + ExprInt(1, d.size)}))
        elif k < 0.7:
            b.abs.append(AssignBlock({ExprMem(g.ptr(), d.size): d}))
        else:
            b.abs.append(AssignBlock({d2: ExprOp('^', d, ExprMem(p, sz).zeroExtend(d.size) if sz < d.size
                                                 else ExprMem(p, sz))}))

    def call(self, b):
        """call modelled as LifterModelCall.call_effects does (or the ida-example
        variant that keeps the stack pointer arithmetic)"""
        r = self.rng
        ctx = self.ctx
        self.features.add("call")
        if r.random() < 0.5:
            addr = ExprLoc(ctx.loc_db.get_or_create_offset_location(0x70000000 + 0x100 * r.randrange(4)), ctx.bits)
        else:
            addr = r.choice([ExprMem(self.g.ptr(), ctx.bits), r.choice(ctx.gpr)])
        if r.random() < 0.35:
            # push an argument first
            b.abs.append(AssignBlock({ExprMem(ctx.sp - ExprInt(ctx.word, ctx.bits), ctx.bits): self.g.value(ctx.bits, 1),
                                      ctx.sp: ctx.sp - ExprInt(ctx.word, ctx.bits)}))
        if r.random() < 0.6:
            blks, _ = ctx.lmc.call_effects(addr, None)
            b.abs.extend(blks)
        else:
            b.abs.append(AssignBlock({ctx.ret_reg: ExprOp('call_func_ret', addr),
                                      ctx.sp: ctx.sp + ExprInt(r.choice([0, ctx.word, 2 * ctx.word]), ctx.bits)}))

    # ---- regions
    def region_seq(self, cur, depth, loop_exit=None):
        r = self.rng
        n = r.choice([1, 2, 2, 3]) if depth == 0 else r.choice([1, 1, 2])
        for _ in range(n):
            cur = self.region(cur, depth, loop_exit)
        return cur

    def region(self, cur, depth, loop_exit):
        r = self.rng
        kinds = ["straight"] * 3
        if self.room() and depth < 3:
            kinds += ["ifelse"] * 3 + ["ifthen"] * 2 + ["call"] * 2 + ["early"] * 1 + ["constcond"] * 1
            if self.free_counters:
                kinds += ["loop"] * 3
            if loop_exit is not None:
                kinds += ["break"] * 2
        kind = r.choice(kinds)
        self.shape.append(kind[0] + str(depth))
        self.features.add(kind)
        if kind == "straight":
            self.straight(cur)
            return cur
        if kind == "call":
            self.straight(cur, 1)
            self.call(cur)
            if r.random() < 0.7:
                nxt = self.new_block()
                self.jump(cur, nxt)
                cur = nxt
            return cur
        if kind == "ifelse":
            self.straight(cur, r.choice([0, 1]))
            t, e, j = self.new_block(), self.new_block(), self.new_block()
            self.branch(cur, self.condition(), t, e)
            same_reg = r.choice(self.ctx.gpr) if r.random() < 0.5 else None
            same_cst = self.g.const(self.ctx.bits)
            for arm in (t, e):
                if same_reg is not None:
                    # joins where constants agree / disagree
                    c = same_cst if r.random() < 0.6 else self.g.const(self.ctx.bits)
                    arm.abs.append(AssignBlock({same_reg: c}))
                end = self.region_seq(arm, depth + 1, loop_exit)
                self.jump(end, j)
            if same_reg is not None:
                j.abs.append(AssignBlock({r.choice(self.ctx.gpr): same_reg + ExprInt(1, same_reg.size)}))
            return j
        if kind == "ifthen":
            self.straight(cur, r.choice([0, 1]))
            t, j = self.new_block(), self.new_block()
            if r.random() < 0.5:
                self.branch(cur, self.condition(), t, j)
            else:
                self.branch(cur, self.condition(), j, t)
            end = self.region_seq(t, depth + 1, loop_exit)
            self.jump(end, j)
            return j
        if kind == "constcond":
            # a branch whose condition is a constant once expressions are propagated
            d = r.choice(self.ctx.gpr + self.ctx.flags)
            c = self.g.const(d.size)
            cur.abs.append(AssignBlock({d: c}))
            if r.random() < 0.5:
                self.straight(cur, 1)
            t, j = self.new_block(), self.new_block()
            cond = d if d.size == 1 else ExprOp('==', d, c if r.random() < 0.5 else self.g.const(d.size))
            self.branch(cur, cond, t, j)
            end = self.region_seq(t, depth + 1, loop_exit)
            self.jump(end, j)
            return j
        if kind == "early":
            j = self.new_block()
            if self.epilogue is None or r.random() < 0.3:
                out = self.new_block()
                self.straight(out, r.choice([0, 1]))
                self.leaf(out)
            else:
                out = self.epilogue
            self.branch(cur, self.condition(), out, j)
            return j
        if kind == "break":
            j = self.new_block()
            self.branch(cur, self.condition(), loop_exit, j)
            return j
        if kind == "loop":
            return self.loop(cur, depth)
        raise AssertionError(kind)

    def loop(self, cur, depth):
        r = self.rng
        ctx = self.ctx
        cnt = self.free_counters.pop()
        bits = ctx.bits
        if r.random() < 0.6:
            init = ExprInt(r.randrange(1, 7), bits)
        else:
            init = (r.choice(ctx.gpr) & ExprInt(7, bits)) + ExprInt(1, bits)
        cur.abs.append(AssignBlock({cnt: init}))
        head, exit_ = self.new_block(), self.new_block()
        style = r.choice(["dowhile", "dowhile_flag", "while", "dowhile_fused"])
        self.shape.append(style)
        dec = cnt - ExprInt(1, bits)
        if style == "while":
            body = self.new_block()
            self.jump(cur, head)
            self.branch(head, cnt, body, exit_)
            end = self.region_seq(body, depth + 1, exit_)
            end.abs.append(AssignBlock({cnt: dec}))
            self.jump(end, head)
        else:
            self.jump(cur, head)
            end = self.region_seq(head, depth + 1, exit_)
            if style == "dowhile":
                end.abs.append(AssignBlock({cnt: dec}))
                if r.random() < 0.5:
                    self.branch(end, cnt, head, exit_)
                else:
                    self.branch(end, ExprOp('==', cnt, ExprInt(0, bits)), exit_, head)
            elif style == "dowhile_flag":
                zf = ctx.flags[0]
                end.abs.append(AssignBlock({cnt: dec, zf: ExprOp('==', dec, ExprInt(0, bits))}))
                self.branch(end, zf, exit_, head)
            else:
                # decrement and test in the same (parallel) assignment as the jump
                self.branch(end, dec, head, exit_, extra={cnt: dec})
        self.free_counters.append(cnt)
        if r.random() < 0.4:
            # the counter's final value is observable
            exit_.abs.append(AssignBlock({r.choice(ctx.gpr): cnt + ExprInt(r.choice([0, 1]), bits)}))
        return exit_

    def leaf(self, b):
        r = self.rng
        ctx = self.ctx
        k = r.random()
        if self.allow_incomplete_leaf and k < 0.12:
            # jump out of the graph to a location without block
            self.features.add("leaf_incomplete")
            out = ctx.loc_db.add_location()
            b.term = AssignBlock({ctx.IRDst: ExprLoc(out, ctx.bits)})
            return
        if k < 0.8:
            self.features.add("leaf_ret")
            b.term = AssignBlock({ctx.IRDst: ExprMem(ctx.sp, ctx.bits),
                                  ctx.sp: ctx.sp + ExprInt(ctx.word * r.choice([1, 1, 1, 2, 3]), ctx.bits)})
        else:
            self.features.add("leaf_jmpreg")
            b.term = AssignBlock({ctx.IRDst: r.choice(ctx.gpr)})

    def build(self):
        r = self.rng
        ctx = self.ctx
        head = self.new_block()
        if r.random() < 0.6:
            self.epilogue = _B(ctx.loc_db.add_location())
        if r.random() < 0.4:
            # prologue: push frame pointer
            head.abs.append(AssignBlock({ExprMem(ctx.sp - ExprInt(ctx.word, ctx.bits), ctx.bits): ctx.bp,
                                         ctx.sp: ctx.sp - ExprInt(ctx.word, ctx.bits)}))
            head.abs.append(AssignBlock({ctx.bp: ctx.sp}))
        end = self.region_seq(head, 0)
        if r.random() < 0.1 and self.free_counters and self.room():
            # the head is a loop header (has a predecessor).  The counter is not
            # initialised by the function: mask it so the trip count stays <= 8.
            self.features.add("head_loop")
            cnt = self.free_counters.pop()
            nxt = self.new_block()
            nc = (cnt & ExprInt(7, ctx.bits)) - ExprInt(1, ctx.bits)
            self.branch(end, cnt & ExprInt(7, ctx.bits), head, nxt, extra={cnt: nc})
            end = nxt
        if self.epilogue is not None:
            self.blocks.append(self.epilogue)
            self.straight(self.epilogue, r.choice([0, 1, 2]))
            self.leaf(self.epilogue)
            self.jump(end, self.epilogue)
        else:
            self.straight(end, r.choice([0, 1]))
            self.leaf(end)
        ircfg = IRCFG(ctx.IRDst, ctx.loc_db)
        for b in self.blocks:
            assert b.term is not None
            ircfg.add_irblock(IRBlock(ctx.loc_db, b.loc, b.abs + [b.term]))
        return ircfg, head.loc


def gen_function(rng, machine_name, profile="simp", allow_incomplete_leaf=False):
    """-> (ctx, ircfg, head, info)"""
    ctx = FCtx(machine_name)
    fg = FuncGen(rng, ctx, profile=profile, max_blocks=rng.choice([4, 8, 12, 16]),
                 allow_incomplete_leaf=allow_incomplete_leaf)
    ircfg, head = fg.build()
    info = dict(kind="random-ir", machine=machine_name, shape="".join(fg.shape), features=sorted(fg.features),
                nblocks=len(ircfg.blocks))
    return ctx, ircfg, head, info


# --------------------------------------------------------------------------
# x86 template functions

class AsmFuncGen(object):
    def __init__(self, rng, bits):
        self.rng = rng
        self.bits = bits
        self.lines = []
        self.nlabel = 0
        self.features = set()
        self.shape = []
        if bits == 32:
            self.work = ["EAX", "EDX", "ESI", "EDI", "EBX"]
            self.counters = ["ECX", "EBX"]
            self.sp, self.bp = "ESP", "EBP"
            self.ptr = "DWORD PTR"
            self.word = 4
            self.low8 = {"EAX": "AL", "EDX": "DL", "EBX": "BL", "ECX": "CL"}
        else:
            self.work = ["RAX", "RDX", "RSI", "RDI", "RBX", "R8", "R9"]
            self.counters = ["RCX", "RBX"]
            self.sp, self.bp = "RSP", "RBP"
            self.ptr = "QWORD PTR"
            self.word = 8
            self.low8 = {"RAX": "AL", "RDX": "DL", "RBX": "BL", "RCX": "CL"}
        self.busy = []      # counters of the enclosing loops
        self.frame = rng.choice([True, True, False])

    def label(self, stem):
        self.nlabel += 1
        return "%s_%d" % (stem, self.nlabel)

    def emit(self, s):
        self.lines.append("   " + s)

    def wreg(self):
        pool = [x for x in self.work if x not in self.busy]
        return self.rng.choice(pool)

    def rreg(self):
        return self.rng.choice(self.work + self.busy)

    def imm(self):
        r = self.rng
        return r.choice([0, 1, 2, 3, 4, 7, 8, 0x10, 0x7f, 0x80, 0xff, 0x100, 0x1234, 0x7fffffff,
                         r.getrandbits(31)])

    def local(self):
        """a stack slot: locals below the frame pointer, arguments above"""
        r = self.rng
        w = self.word
        if self.frame:
            off = r.choice([-w, -w, -2 * w, -3 * w, 2 * w, 3 * w])
            return "%s [%s%s0x%x]" % (self.ptr, self.bp, "+" if off >= 0 else "-", abs(off))
        off = r.choice([w, 2 * w, 3 * w])
        return "%s [%s+0x%x]" % (self.ptr, self.sp, off)

    def memop(self):
        r = self.rng
        if r.random() < 0.7:
            return self.local()
        base = r.choice(self.work[2:4])
        return "%s [%s+0x%x]" % (self.ptr, base, r.choice([0, 4, 8, 0x10]))

    def simple(self):
        r = self.rng
        k = r.random()
        d = self.wreg()
        if k < 0.14:
            self.emit("MOV %s, 0x%x" % (d, self.imm()))
        elif k < 0.24:
            self.emit("MOV %s, %s" % (d, self.rreg()))
        elif k < 0.44:
            op = r.choice(["ADD", "SUB", "XOR", "AND", "OR", "ADC", "SBB", "CMP", "TEST"])
            src = self.rreg() if r.random() < 0.6 else "0x%x" % self.imm()
            self.emit("%s %s, %s" % (op, d, src))
        elif k < 0.52:
            self.emit("%s %s, 0x%x" % (r.choice(["SHL", "SHR", "SAR", "ROL", "ROR"]), d, r.choice([1, 2, 3, 4, 7, 31])))
        elif k < 0.58:
            self.emit("%s %s" % (r.choice(["NEG", "NOT", "INC", "DEC"]), d))
        elif k < 0.64:
            self.emit("LEA %s, %s [%s+%s*%d+0x%x]" % (d, self.ptr, self.rreg(), self.rreg_noscale_sp(), r.choice([1, 2, 4, 8]),
                                                   r.choice([0, 1, 4, 0x10])))
        elif k < 0.70:
            self.emit("IMUL %s, %s" % (d, self.rreg()))
        elif k < 0.80:
            self.features.add("load")
            self.emit("MOV %s, %s" % (d, self.memop()))
        elif k < 0.90:
            self.features.add("store")
            if r.random() < 0.7:
                self.emit("MOV %s, %s" % (self.memop(), self.rreg()))
            else:
                self.emit("MOV %s, 0x%x" % (self.memop(), self.imm()))
        elif k < 0.94:
            self.features.add("cmov")
            self.emit("TEST %s, %s" % (self.rreg(), self.rreg()))
            self.emit("%s %s, %s" % (r.choice(["CMOVZ", "CMOVNZ", "CMOVS", "CMOVB"]), d, self.rreg()))
        elif k < 0.97:
            self.features.add("pushpop")
            self.emit("PUSH %s" % self.rreg())
            self.simple_noreentry()
            self.emit("POP %s" % self.wreg())
        else:
            self.emit("XCHG %s, %s" % (d, self.wreg()))

    def rreg_noscale_sp(self):
        return self.rng.choice(self.work)

    def simple_noreentry(self):
        d = self.wreg()
        self.emit("%s %s, %s" % (self.rng.choice(["ADD", "XOR", "MOV"]), d, self.rreg()))

    def cond_jump(self, target):
        r = self.rng
        k = r.random()
        if k < 0.5:
            self.emit("CMP %s, %s" % (self.rreg(), self.rreg() if r.random() < 0.5 else "0x%x" % self.imm()))
        elif k < 0.8:
            a = self.rreg()
            self.emit("TEST %s, %s" % (a, a if r.random() < 0.6 else self.rreg()))
        # else: flags of whatever came before
        jcc = r.choice(["JZ", "JNZ", "JB", "JAE", "JBE", "JA", "JL", "JGE", "JLE", "JG", "JS", "JNS"])
        self.emit("%s %s" % (jcc, target))

    def body(self, depth, n=None):
        r = self.rng
        n = n if n is not None else r.choice([1, 2, 2, 3])
        for _ in range(n):
            kinds = ["simple"] * 4
            if depth < 3 and self.nlabel < 12:
                kinds += ["ifelse", "ifelse", "ifthen", "ifthen", "call", "early"]
                if len(self.busy) < len(self.counters):
                    kinds += ["loop"] * 3
            kind = r.choice(kinds)
            self.shape.append(kind[0] + str(depth))
            self.features.add(kind)
            if kind == "simple":
                for _ in range(r.choice([1, 2, 3])):
                    self.simple()
            elif kind == "ifelse":
                le, lj = self.label("else"), self.label("join")
                self.cond_jump(le)
                self.body(depth + 1)
                self.emit("JMP %s" % lj)
                self.lines.append("%s:" % le)
                self.body(depth + 1)
                self.lines.append("%s:" % lj)
                self.simple()
            elif kind == "ifthen":
                lj = self.label("skip")
                self.cond_jump(lj)
                self.body(depth + 1)
                self.lines.append("%s:" % lj)
                self.simple()
            elif kind == "early":
                self.cond_jump("epilogue")
            elif kind == "call":
                nargs = r.choice([0, 1, 2])
                if self.bits == 32:
                    for _ in range(nargs):
                        self.emit("PUSH %s" % self.rreg())
                else:
                    for reg in ["RCX", "RDX"][:nargs]:
                        if reg not in self.busy:
                            self.emit("MOV %s, %s" % (reg, self.rreg()))
                if r.random() < 0.8:
                    self.emit("CALL 0x%x" % (0x70000000 + 0x100 * r.randrange(4)))
                else:
                    self.emit("CALL %s" % self.rreg())
                if self.bits == 32 and nargs and r.random() < 0.7:
                    self.emit("ADD ESP, 0x%x" % (4 * nargs))
            elif kind == "loop":
                cnt = [c for c in self.counters if c not in self.busy][0]
                was_work = cnt in self.work
                if r.random() < 0.6:
                    self.emit("MOV %s, 0x%x" % (cnt, r.randrange(1, 7)))
                else:
                    self.emit("MOV %s, %s" % (cnt, self.rreg()))
                    self.emit("AND %s, 0x7" % cnt)
                    self.emit("INC %s" % cnt)
                ll = self.label("loop")
                self.lines.append("%s:" % ll)
                self.busy.append(cnt)
                self.body(depth + 1)
                self.busy.pop()
                k = r.random()
                if k < 0.5:
                    self.emit("DEC %s" % cnt)
                    self.emit("JNZ %s" % ll)
                elif k < 0.8:
                    self.emit("SUB %s, 0x1" % cnt)
                    self.emit("JNZ %s" % ll)
                else:
                    self.emit("SUB %s, 0x1" % cnt)
                    self.emit("CMP %s, 0x0" % cnt)
                    self.emit("JA %s" % ll)

    def text(self):
        r = self.rng
        self.lines = ["main:"]
        # loop counters must not be written by the body: take them out of the work pool
        self.work = [x for x in self.work if x not in self.counters]
        if self.frame:
            self.emit("PUSH %s" % self.bp)
            self.emit("MOV %s, %s" % (self.bp, self.sp))
            self.emit("SUB %s, 0x%x" % (self.sp, self.word * r.choice([2, 4, 4, 8])))
        self.body(0, r.choice([2, 3, 4]))
        self.lines.append("epilogue:")
        if r.random() < 0.5:
            self.simple()
        if self.frame:
            if r.random() < 0.5:
                self.emit("LEAVE")
            else:
                self.emit("MOV %s, %s" % (self.sp, self.bp))
                self.emit("POP %s" % self.bp)
        if r.random() < 0.85:
            self.emit("RET")
        else:
            self.emit("RET 0x%x" % (self.word * r.choice([1, 2])))
        return "\n".join(self.lines) + "\n"


_MACHINES = {}


def machine_of(name):
    from miasm.analysis.machine import Machine
    m = _MACHINES.get(name)
    if m is None:
        m = _MACHINES[name] = Machine(name)
    return m


class LiftedCtx(object):
    """same attribute surface as FCtx for a lifted function"""

    def __init__(self, machine_name, loc_db):
        self.name = machine_name
        self.machine = machine_of(machine_name)
        self.loc_db = loc_db
        self.lmc = self.machine.lifter_model_call(loc_db)
        self.lifter = self.lmc
        self.lifter_model_call = self.lmc
        regs = self.lmc.arch.regs
        self.bits = self.lmc.addrsize
        self.word = self.bits // 8
        self.IRDst = self.lmc.IRDst
        self.sp = self.lmc.sp
        self.ret_reg = self.lmc.ret_reg
        if machine_name == "x86_32":
            self.gpr = [regs.EAX, regs.EBX, regs.ECX, regs.EDX, regs.ESI, regs.EDI]
            self.ptrs = [regs.ESP, regs.EBP, regs.ESI, regs.EDI]
        else:
            self.gpr = [regs.RAX, regs.RBX, regs.RCX, regs.RDX, regs.RSI, regs.RDI, regs.R8, regs.R9]
            self.ptrs = [regs.RSP, regs.RBP, regs.RSI, regs.RDI]
        self.flags = [regs.zf, regs.cf, regs.nf, regs.of, regs.pf, regs.af]
        self.counters = []

    def all_regs(self):
        out = []
        for r in self.gpr + self.ptrs + self.flags:
            if r not in out:
                out.append(r)
        return out


def assemble(machine_name, text, base=0x1000):
    """asm text -> bytes (miasm assembler)"""
    from miasm.core import parse_asm, asmblock
    from miasm.core.locationdb import LocationDB
    from miasm.loader.strpatchwork import StrPatchwork
    machine = machine_of(machine_name)
    loc_db = LocationDB()
    attrib = 32 if machine_name == "x86_32" else 64
    asmcfg = parse_asm.parse_txt(machine.mn, attrib, text, loc_db)
    loc_db.set_location_offset(loc_db.get_name_location("main"), base)
    patches = asmblock.asm_resolve_final(machine.mn, asmcfg)
    out = StrPatchwork()
    for off, raw in patches.items():
        out[off] = raw
    return bytes(out)[base:]


def lift_bytes(machine_name, data, base=0x1000):
    """bytes -> (ctx, ircfg, head) through the disassembler and lifter_model_call"""
    from miasm.core.locationdb import LocationDB
    from miasm.core.bin_stream import bin_stream_str
    machine = machine_of(machine_name)
    loc_db = LocationDB()
    mdis = machine.dis_engine(bin_stream_str(data, base_address=base), loc_db=loc_db)
    asmcfg = mdis.dis_multiblock(base)
    ctx = LiftedCtx(machine_name, loc_db)
    ircfg = ctx.lmc.new_ircfg_from_asmcfg(asmcfg)
    head = loc_db.get_offset_location(base)
    return ctx, ircfg, head


def gen_asm_function(rng, machine_name):
    """-> (ctx, ircfg, head, info); raises on assembler/lifter rejection"""
    bits = 32 if machine_name == "x86_32" else 64
    ag = AsmFuncGen(rng, bits)
    text = ag.text()
    data = assemble(machine_name, text)
    ctx, ircfg, head = lift_bytes(machine_name, data)
    info = dict(kind="asm", machine=machine_name, shape="".join(ag.shape), features=sorted(ag.features),
                asm=text, code=data.hex(), nblocks=len(ircfg.blocks))
    return ctx, ircfg, head, info


# --------------------------------------------------------------------------
# states and observation

def copy_graph(ircfg):
    new = IRCFG(ircfg.IRDst, ircfg.loc_db)
    for blk in ircfg.blocks.values():
        new.add_irblock(blk)
    return new


def initial_ids(rng, ctx, alias=False):
    """register file (dict): pointer registers far apart unless @alias"""
    env = irgen.initial_state(rng, ctx, 0)
    ids = env.ids
    for r in ctx.all_regs():
        if r not in ids:
            ids[r] = rng.getrandbits(r.size)
    if alias and len(ctx.ptrs) >= 3:
        a, b = rng.sample(ctx.ptrs[1:], 2)
        ids[b] = (ids[a] + rng.choice([0, 0, 1, 2, 4, -4, 8])) & ((1 << a.size) - 1)
    return ids


def mkenv(ctx, ids, seed, extra=None):
    d = dict(ids)
    if extra:
        d.update(extra)
    return refsem.Env(ids=d, seed=seed, locs=irgen.LocMap(ctx.loc_db))


class _MarkedList(list):
    """event list that remembers where each assignblock's events start"""

    def __init__(self):
        list.__init__(self)
        self.marks = []
        self.n_silent = 0

    def mark(self):
        self.marks.append(len(self))

    def normalised(self, default_byte=None, amask=None):
        """call events of one assignblock carry no order (parallel assignment)
        and the same call expression evaluated twice there is one call.
        With @default_byte (initial memory content): a *silent* store -- one that
        writes the bytes the location already holds -- is not an event
        (little-endian replay of the stores over the initial memory)."""
        out = []
        shadow = {}
        bounds = self.marks + [len(self)]
        for a, b in zip(bounds, bounds[1:]):
            seg = self[a:b]
            calls = sorted(set(e for e in seg if e[0] == "c"), key=repr)
            out.extend(calls)
            for e in seg:
                if e[0] != "w":
                    continue
                if default_byte is not None:
                    _, addr, nbytes, val = e
                    silent = True
                    for i in range(nbytes):
                        ad = (addr + i) & amask
                        new = (val >> (8 * i)) & 0xff
                        old = shadow.get(ad)
                        if old is None:
                            old = default_byte(ad)
                        if old != new:
                            silent = False
                        shadow[ad] = new
                    if silent:
                        self.n_silent += 1
                        continue
                out.append(e)
        return out


class _Graph(object):
    """minimal graph view (blocks + IRDst) for snapshots of a blocks dict"""

    def __init__(self, blocks, irdst):
        self.blocks = blocks
        self.IRDst = irdst


def observe(graph, ctx, head, env, max_steps, phi_mode=False, drop_silent=True):
    """Run @graph (IRCFG or dict loc_key -> IRBlock) from @head.
    -> (Result, normalised event list); silent stores are dropped from the list
    when @drop_silent (env must start without memory overrides).  irinterp.run is used unchanged; its
    Result class is substituted for the duration of the call by a subclass whose
    event list records assignblock boundaries (the `track` callback marks them)."""
    if isinstance(graph, dict):
        graph = _Graph(graph, ctx.IRDst)
    events = _MarkedList()
    base = irinterp.Result

    class _R(base):
        __slots__ = ()

        def __init__(self):
            base.__init__(self)
            self.events = events
    irinterp.Result = _R
    try:
        res = irinterp.run(graph, ctx.loc_db, head, env, max_steps=max_steps, irdst=graph.IRDst,
                           phi_mode=phi_mode, track=lambda loc, idx, ab, e: events.mark())
    finally:
        irinterp.Result = base
    if drop_silent:
        return res, events.normalised(env.default_byte, (1 << ctx.bits) - 1)
    return res, events.normalised()


def out_reg_value(res, reg, ssa_var):
    """value of the variable that stands for @reg at the exit: the most recently
    assigned variable V with ssa_var[V] == reg on the executed path, else reg"""
    best, bt = reg, res.last_def.get(reg, -1)
    for v, t in res.last_def.items():
        if t > bt and ssa_var.get(v) == reg:
            best, bt = v, t
    return best, res.env.ident(best)
