"""C35 helpers: random C declarations (one text for miasm/pycparser, one for gcc with or
without __attribute__((packed))), the gcc probe that prints sizeof/_Alignof/offsetof, and
random member-access chains with the designators needed to compute their address from
gcc's numbers.

Type algebra used for accesses: a type is (base, ptr, dims); base is ("scalar", name) |
("enum", tag) | ("agg", Agg) | ("void",) | ("func",); dims are the array dimensions,
outermost first; ptr the number of '*' applied to base (arrays of pointers, not pointers
to arrays).
"""

SCALARS = [
    "char", "signed char", "unsigned char", "short", "short int", "signed short",
    "unsigned short", "unsigned short int", "int", "signed int", "unsigned", "unsigned int",
    "long", "long int", "signed long", "unsigned long", "unsigned long int", "long long",
    "long long int", "signed long long", "unsigned long long", "unsigned long long int",
    "float", "double", "long double",
]


class Agg(object):
    def __init__(self, kind, tag):
        self.kind, self.tag = kind, tag        # tag None: anonymous
        self.members = []                      # Member list
        self.complete = False
        self.toplevel = False
        self.inline_refs = False   # some declaration names an aggregate defined inline elsewhere

    def ref(self):
        return "%s %s" % (self.kind, self.tag)


class Member(object):
    def __init__(self, name, base, ptr=0, dims=(), dim_txt=None, how="plain", fptr=False):
        self.name, self.base, self.ptr, self.dims = name, base, ptr, list(dims)
        self.dim_txt = list(dim_txt) if dim_txt is not None else [str(d) for d in dims]
        self.how = how            # plain | inline | anon | typedef:<name>
        self.fptr = fptr

    def eff(self):
        """effective (base, ptr, dims)"""
        return (self.base, self.ptr, list(self.dims))


class Header(object):
    def __init__(self, prefix):
        self.prefix = prefix
        self.aggs = []        # every tagged aggregate, definition order
        self.top = []         # top-level declarations (Agg or ("typedef", text) or ("enum", text))
        self.typedefs = {}    # name -> (base, ptr, dims)
        self.enums = []
        self.chains = []
        self.inline_refs = False


class Gen(object):
    def __init__(self, rng, prefix):
        self.rng, self.h = rng, Header(prefix)
        self.n = 0

    def uid(self, stem):
        self.n += 1
        return "%s%s%d" % (self.h.prefix, stem, self.n)

    # ---- declarations
    def header(self):
        rng, h = self.rng, self.h
        if rng.random() < 0.6:
            tag = self.uid("e")
            h.enums.append(tag)
            h.top.append(("text", "enum %s { %s_A, %s_B = 7, %s_C };" % (tag, tag, tag, tag)))
        for _ in range(rng.randint(2, 5)):
            agg = self.aggregate(0, tagged=True, toplevel=True)
            h.top.append(("agg", agg))
            if rng.random() < 0.4:
                # typedef of an array / pointer / the aggregate itself
                name = self.uid("t")
                r = rng.random()
                if r < 0.4:
                    dims = [rng.randint(1, 4)]
                    base = self.scalar_base()
                    h.typedefs[name] = (base, 0, dims)
                    h.top.append(("text", "typedef %s %s[%d];" % (base[1], name, dims[0])))
                elif r < 0.7:
                    h.typedefs[name] = (("agg", agg), 0, [])
                    h.top.append(("text", "typedef %s %s;" % (agg.ref(), name)))
                else:
                    base = self.scalar_base()
                    h.typedefs[name] = (base, 1, [])
                    h.top.append(("text", "typedef %s *%s;" % (base[1], name)))
        return h

    def scalar_base(self):
        return ("scalar", self.rng.choice(SCALARS))

    def aggregate(self, depth, tagged, toplevel=False):
        rng = self.rng
        kind = "struct" if rng.random() < 0.7 else "union"
        agg = Agg(kind, self.uid("s" if kind == "struct" else "u") if tagged else None)
        agg.toplevel = toplevel
        if tagged:
            self.h.aggs.append(agg)       # registered before its members: self pointers
        for _ in range(rng.randint(1, 6 if depth == 0 else 4)):
            agg.members.append(self.member(agg, depth))
        agg.complete = True
        return agg

    def dims(self):
        rng = self.rng
        r = rng.random()
        if r < 0.55:
            return [], []
        nd = 1 if r < 0.85 else (2 if r < 0.96 else 3)
        dims, txt = [], []
        for _ in range(nd):
            r2 = rng.random()
            if r2 < 0.8:
                d = rng.randint(1, 5)
                dims.append(d)
                txt.append(str(d))
            elif r2 < 0.9:
                a, b = rng.randint(1, 3), rng.randint(1, 2)
                dims.append(a * b + 1)
                txt.append("%d*%d+1" % (a, b))
            else:
                dims.append(4)
                txt.append("sizeof(int)")
        return dims, txt

    def member(self, owner, depth):
        rng, h = self.rng, self.h
        name = self.uid("m")
        r = rng.random()
        # aggregates defined inline inside another one are only named again in a small fraction
        # of headers (miasm forgets their tag): such headers are flagged
        risky = rng.random() < 0.04
        done = [a for a in h.aggs if a.complete and a.tag and (a.toplevel or risky)]
        if r < 0.40:
            dims, txt = self.dims()
            return Member(name, self.scalar_base(), 0, dims, txt)
        if r < 0.52:
            # pointers: to scalar, void, an aggregate (possibly the owner or an outer one)
            r2 = rng.random()
            if r2 < 0.35:
                base = self.scalar_base()
            elif r2 < 0.5:
                base = ("void",)
            else:
                cands = [a for a in h.aggs if a.tag and (a.toplevel or risky)]
                base = ("agg", rng.choice(cands)) if cands else self.scalar_base()
                if base[0] == "agg" and not base[1].toplevel:
                    h.inline_refs = True
            ptr = 1 if rng.random() < 0.8 else 2
            dims, txt = self.dims() if rng.random() < 0.3 else ([], [])
            return Member(name, base, ptr, dims, txt)
        if r < 0.57:
            return Member(name, ("func",), 1, [], [], fptr=True)
        if r < 0.63 and h.enums:
            dims, txt = self.dims() if rng.random() < 0.3 else ([], [])
            return Member(name, ("enum", rng.choice(h.enums)), 0, dims, txt)
        if r < 0.73 and done:
            dims, txt = self.dims() if rng.random() < 0.4 else ([], [])
            ref = rng.choice(done)
            if not ref.toplevel:
                h.inline_refs = True
            return Member(name, ("agg", ref), 0, dims, txt)
        if r < 0.80 and h.typedefs:
            td = rng.choice(sorted(h.typedefs))
            base, ptr, tdims = h.typedefs[td]
            dims, txt = self.dims() if rng.random() < 0.3 else ([], [])
            m = Member(name, base, ptr, dims + tdims, txt, how="typedef:" + td)
            m.own_dims = len(dims)
            return m
        if depth < 2:
            if r < 0.90:
                sub = self.aggregate(depth + 1, tagged=True)
                dims, txt = self.dims() if rng.random() < 0.3 else ([], [])
                return Member(name, ("agg", sub), 0, dims, txt, how="inline")
            sub = self.aggregate(depth + 1, tagged=False)
            return Member(None, ("agg", sub), 0, [], [], how="anon")
        dims, txt = self.dims()
        return Member(name, self.scalar_base(), 0, dims, txt)

    # ---- text
    def text(self, packed):
        out = []
        for kind, item in self.h.top:
            if kind == "text":
                out.append(item)
            else:
                out.append(self.agg_text(item, packed, 0) + ";")
        return "\n".join(out) + "\n"

    def agg_text(self, agg, packed, ind):
        pad = "    " * (ind + 1)
        attr = " __attribute__((packed))" if packed else ""
        lines = ["%s%s%s {" % (agg.kind, attr, (" " + agg.tag) if agg.tag else "")]
        for m in agg.members:
            lines.append(pad + self.member_text(m, packed, ind + 1) + ";")
        lines.append("    " * ind + "}")
        return "\n".join(lines)

    def member_text(self, m, packed, ind):
        dims = "".join("[%s]" % t for t in m.dim_txt)
        if m.how == "anon":
            return self.agg_text(m.base[1], packed, ind)
        if m.how == "inline":
            return "%s %s%s" % (self.agg_text(m.base[1], packed, ind), m.name, dims)
        if m.how.startswith("typedef:"):
            return "%s %s%s" % (m.how.split(":", 1)[1], m.name, dims)
        if m.fptr:
            return "int (*%s)(int, char)" % m.name
        if m.base[0] == "scalar":
            b = m.base[1]
        elif m.base[0] == "void":
            b = "void"
        elif m.base[0] == "enum":
            b = "enum " + m.base[1]
        else:
            b = m.base[1].ref()
        return "%s %s%s%s" % (b, "*" * m.ptr, m.name, dims)


def flat_members(agg, prefix_anon=False):
    """[(name, Member)] reachable by name from @agg (anonymous members flattened)"""
    out = []
    for m in agg.members:
        if m.how == "anon":
            out.extend(flat_members(m.base[1]))
        else:
            out.append((m.name, m))
    return out


def anon_names(agg):
    """names that live inside an anonymous member of @agg"""
    out = set()
    for m in agg.members:
        if m.how == "anon":
            out.update(n for n, _ in flat_members(m.base[1]))
    return out


# --------------------------------------------------------------------------
# access chains

class Chain(object):
    def __init__(self):
        self.c = "ptr"              # C text
        self.segments = []          # [dict(agg, designator, then)]  then: None | ("index", i) | ("deref",)
        self.features = set()
        self.final = None           # (base, ptr, dims) of the accessed object
        self.addr_of = False


def gen_chain(rng, root, risky):
    """random access starting at 'ptr' of type 'struct root *'.  Returns Chain or None"""
    ch = Chain()
    cur = (("agg", root), 1, [])
    seg = None                     # current segment: [agg, designator]
    steps = 0
    while True:
        steps += 1
        if steps > 14:
            return None          # e.g. a struct whose only member points to itself
        base, ptr, dims = cur
        is_struct_ptr = base[0] == "agg" and ptr == 1 and not dims
        is_struct_val = base[0] == "agg" and ptr == 0 and not dims
        if is_struct_ptr or is_struct_val:
            agg = base[1]
            names = flat_members(agg)
            if not names:
                return None
            anon = anon_names(agg)
            cands = [(n, m) for n, m in names if risky or n not in anon]
            if not cands:
                return None
            n, m = rng.choice(cands)
            if n in anon:
                ch.features.add("anonymous member")
            if is_struct_ptr:
                if seg is not None:
                    ch.segments.append(dict(agg=seg[0], designator=seg[1], then=("deref",)))
                use_arrow = True
                if risky and rng.random() < 0.5:
                    r = rng.random()
                    if r < 0.5:
                        ch.c = "(*%s).%s" % (ch.c, n)
                        ch.features.add("(*p).m on a struct pointer")
                    else:
                        # p[0].m: same address as p->m
                        ch.c = "%s[0].%s" % (ch.c, n)
                        ch.features.add("p[i].m on a struct pointer")
                    use_arrow = False
                if use_arrow:
                    ch.c = "%s->%s" % (ch.c, n)
                    if agg.kind == "union":
                        ch.features.add("-> on a pointer to union")
                seg = [agg, n]
            else:
                ch.c = "%s.%s" % (ch.c, n)
                seg[1] = seg[1] + "." + n
            cur = m.eff()
            continue
        if dims:
            # array: index it, or stop here (array valued access)
            if rng.random() < 0.2 and steps > 1:
                break
            i = rng.randrange(dims[0])
            ch.c = "%s[%d]" % (ch.c, i)
            seg[1] = seg[1] + "[%d]" % i
            cur = (base, ptr, dims[1:])
            if not cur[2] and ptr == 0 and base[0] == "agg" and base[1].kind == "union":
                ch.features.add("element of an array of unions")
            continue
        if ptr > 0 and base[0] != "func":
            # pointer to scalar/pointer/void: stop, or go through it
            if base[0] == "void" and ptr == 1:
                break
            if rng.random() < 0.5:
                break
            if rng.random() < 0.5:
                i = rng.randrange(0, 4)
                ch.segments.append(dict(agg=seg[0], designator=seg[1], then=("index", i)))
                ch.c = "%s[%d]" % (ch.c, i)
            else:
                ch.segments.append(dict(agg=seg[0], designator=seg[1], then=("index", 0)))
                ch.c = "*(%s)" % ch.c
                ch.features.add("unary deref")
            cur = (base, ptr - 1, [])
            if cur[0][0] == "agg" and cur[1] == 0:
                # p[i] of a pointer to struct is a struct value: not generated here
                return None
            ch.final = cur
            ch.pointee_final = True
            return finish(ch, rng, risky)
        break
    if seg is None:
        return None
    ch.segments.append(dict(agg=seg[0], designator=seg[1], then=None))
    ch.final = cur
    ch.pointee_final = False
    return finish(ch, rng, risky)


def finish(ch, rng, risky):
    base, ptr, dims = ch.final
    if base[0] == "agg" and ptr == 0 and not dims:
        return None        # struct valued access: represented by its address, type differs by design
    if not ch.pointee_final and not dims and rng.random() < 0.25:
        if "[" in ch.segments[-1]["designator"].split(".")[-1] and not risky:
            return ch
        if "[" in ch.segments[-1]["designator"].split(".")[-1]:
            ch.features.add("& of an array element")
        ch.addr_of = True
        ch.c = "&(%s)" % ch.c
    return ch


# --------------------------------------------------------------------------
# gcc probe

def probe_source(items):
    """items: list of (id, Gen).  One C file with every header twice (as written, and with
    __attribute__((packed)) on every aggregate, identifiers prefixed by P) printing
       S <u|p> <id> <tag> <sizeof> <alignof>
       M <u|p> <id> <tag> <member> <offsetof> <sizeof member>
       A <id> <chain index> <segment index> <offsetof> <sizeof designated> <sizeof pointee or 0>"""
    out = ["#include <stdio.h>", "#include <stddef.h>"]
    body = []
    for hid, gen in items:
        prefix = gen.h.prefix
        for packed in (False, True):
            text = gen.text(packed)
            lines = []
            tagc = "p" if packed else "u"
            for agg in gen.h.aggs:
                ref = agg.ref()
                lines.append('printf("S %s %s %s %%zu %%zu\\n", sizeof(%s), _Alignof(%s));' % (
                    tagc, hid, agg.tag, ref, ref))
                for name, m in flat_members(agg):
                    lines.append('printf("M %s %s %s %s %%zu %%zu %%zu\\n", offsetof(%s, %s), sizeof(((%s*)0)->%s), '
                                 '(size_t)__alignof__(((%s*)0)->%s));' % (
                                     tagc, hid, agg.tag, name, ref, name, ref, name, ref, name))
            if not packed:
                for ci, ch in enumerate(gen.h.chains):
                    for si, seg in enumerate(ch.segments):
                        ref = seg["agg"].ref()
                        des = seg["designator"]
                        pointee = "sizeof(*(((%s*)0)->%s))" % (ref, des) \
                            if seg["then"] and seg["then"][0] == "index" else "(size_t)0"
                        lines.append('printf("A %s %d %d %%zu %%zu %%zu\\n", offsetof(%s, %s), '
                                     'sizeof(((%s*)0)->%s), %s);' % (hid, ci, si, ref, des, ref, des, pointee))
            if packed:
                text = text.replace(prefix, "P" + prefix)
                lines = [l.replace(prefix, "P" + prefix) for l in lines]
            out.append(text)
            body.extend(lines)
    out.append("int main(void) {")
    out.extend("    " + b for b in body)
    out.append("    return 0;\n}")
    return "\n".join(out) + "\n"


def parse_probe(text):
    """{(variant, id, tag): (size, align)}, {(variant, id, tag, member): (offset, size)},
    {(id, chain, segment): (offset, size, pointee size)}; packed names lose their P"""
    S, M, A = {}, {}, {}
    for line in text.splitlines():
        p = line.split()
        if not p:
            continue
        if p[0] in ("S", "M") and p[1] == "p":
            p[3:] = [x[1:] if x.startswith("P") else x for x in p[3:]]
        if p[0] == "S":
            S[(p[1], p[2], p[3])] = (int(p[4]), int(p[5]))
        elif p[0] == "M":
            M[(p[1], p[2], p[3], p[4])] = (int(p[5]), int(p[6]), int(p[7]))
        elif p[0] == "A":
            A[(p[1], int(p[2]), int(p[3]))] = (int(p[4]), int(p[5]), int(p[6]))
    return S, M, A


# --------------------------------------------------------------------------
# reference layout (System V rules) with switches for two known deviations

def model_layout(agg, leaf, round_unions=True, inline_ref_empty=False, packed=False, cache=None):
    """(size, align, {flat member name: offset}) of @agg.
    @leaf(member) -> (size, align) of one element of a member that is not an aggregate by value.
    @round_unions False: a union's size is its largest member (not rounded up to its alignment).
    @inline_ref_empty True: a member that names (by tag) an aggregate defined inline inside
    another aggregate is an empty struct of size 0 / alignment 1."""
    cache = {} if cache is None else cache
    key = id(agg)
    if key in cache:
        return cache[key]

    def up(v, a):
        return (v + a - 1) // a * a
    offsets = {}
    off, amax, smax = 0, 1, 0
    for m in agg.members:
        if m.base[0] == "agg" and m.ptr == 0:
            sub = m.base[1]
            if inline_ref_empty and m.how in ("plain",) and not sub.toplevel or \
                    (inline_ref_empty and m.how.startswith("typedef:") and not sub.toplevel):
                esz, eal, eoffs = 0, 1, {}
            else:
                esz, eal, eoffs = model_layout(sub, leaf, round_unions, inline_ref_empty, packed, cache)
        else:
            esz, eal = leaf(m)
            eoffs = {}
        n = 1
        for d in m.dims:
            n *= d
        size = esz * n
        if packed:
            eal = 1
        if agg.kind == "struct":
            off = up(off, eal)
            moff = off
            off += size
        else:
            moff = 0
            smax = max(smax, size)
        amax = max(amax, eal)
        if m.how == "anon":
            for k, v in eoffs.items():
                offsets[k] = moff + v
        else:
            offsets[m.name] = moff
    if agg.kind == "struct":
        total = off if packed else up(off, amax)
    else:
        total = smax if (packed or not round_unions) else up(smax, amax)
    if packed:
        amax = 1
    cache[key] = (total, amax, offsets)
    return cache[key]
