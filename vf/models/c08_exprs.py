"""Helpers shared by C07, C08, C09 and C11 (expression-level checks).

* HGen: exprgen.Gen extended (by subclassing only, the shared generator is
  untouched) with hostile identifier names, bytes names, ExprLoc leaves,
  1-argument ExprCompose and uninterpreted n-ary operators.
* model_key / model_size / rebuild: the monitor's own structural model of an
  expression (class + components), independent of repr/hash/copy of miasm.
* subst / norm: substitution of joker bindings and the normal form modulo the
  argument order of commutative operators (oracle of C11).
"""
from miasm.expression.expression import (ExprInt, ExprId, ExprLoc, ExprMem, ExprOp, ExprSlice,
                                         ExprCompose, ExprCond, ExprAssign, LocKey)

from vf import exprgen

# ---------------------------------------------------------------- names

NAMES = {
    "plain": ["x", "EAX", "var_1", "zf", "R12_usr"],
    "space": [" ", "a b", " lead", "trail ", "a  b"],
    "punct": ["a,b", "f(x)", "ExprId('q', 8)", "a)", "(", "a+b", "0x10", "<LocKey 1>", "@32[x]"],
    "squote": ["a'b", "'", "it's"],
    "dquote": ['a"b', '"', '"q"'],
    "both_quotes": ["a'\"b", "'\"", "\"'x"],
    "backslash": ["a\\b", "\\", "a\\", "\\n", "C:\\dir\\f", "\\\\", "\\'"],
    "ws_escape": ["a\nb", "\n", "\r\n", "\t", "a\tb"],
    "nonprintable": ["\x00", "a\x7f", "\x1b[0m", "\u2028", "\xad", "a\x01b"],
    "nonascii": ["\xe9", "\u65e5\u672c", "\xdf8", "\u03b1\u03b2", "\U0001f600"],
    "empty": [""],
    "bytes": [b"abc", b"", b"\xff'", b"a b", b"x"],
}
NAME_CLASSES = sorted(NAMES)
# order in which a name with several features is classified (most hostile first)
_PRIORITY = ["bytes", "backslash", "nonprintable", "both_quotes", "ws_escape", "squote", "dquote",
             "nonascii", "empty", "space", "punct", "plain"]


def name_class(name):
    """Class of an identifier name by the way repr() has to write it."""
    if isinstance(name, bytes):
        return "bytes"
    if name == "":
        return "empty"
    feats = set()
    if "\\" in name:
        feats.add("backslash")
    if "'" in name and '"' in name:
        feats.add("both_quotes")
    elif "'" in name:
        feats.add("squote")
    elif '"' in name:
        feats.add("dquote")
    for c in name:
        if c in "\n\r\t":
            feats.add("ws_escape")
        elif not c.isprintable():
            feats.add("nonprintable")
        elif ord(c) > 127:
            feats.add("nonascii")
        elif c == " ":
            feats.add("space")
        elif not (c.isalnum() or c == "_"):
            feats.add("punct")
    for p in _PRIORITY:
        if p in feats:
            return p
    return "plain"


UNINTERPRETED = ["call_func_ret", "call_func_stack", "fadd", "x86_cpuid", "bsr", "my op"]

WIDTHS_256 = exprgen.WIDTHS + [129, 200, 255, 256]


class HGen(exprgen.Gen):
    """exprgen.Gen with hostile leaves and a few extra node shapes.

    hostile: probability that an identifier gets a name from the hostile pool
    loc:     probability that a leaf is an ExprLoc
    extra:   probability (per inner node) of a 1-argument compose or an
             uninterpreted operator
    """

    def __init__(self, rng, hostile=0.35, loc=0.08, extra=0.08, bytes_names=True, **kw):
        exprgen.Gen.__init__(self, rng, **kw)
        self.hostile = hostile
        self.loc = loc
        self.extra = extra
        self.bytes_names = bytes_names

    def hostile_name(self):
        r = self.rng
        cls = r.choice(NAME_CLASSES)
        if cls == "bytes" and not self.bytes_names:
            cls = "plain"
        name = r.choice(NAMES[cls])
        if cls not in ("bytes", "empty") and r.random() < 0.25:
            # mix with a benign or a second hostile fragment
            other = r.choice(NAMES[r.choice([c for c in NAME_CLASSES if c != "bytes"])])
            name = name + other if r.random() < 0.5 else other + name
        return name

    def id_(self, n):
        if self.rng.random() < self.hostile:
            return ExprId(self.hostile_name(), n)
        return exprgen.Gen.id_(self, n)

    def loc_(self, n):
        return ExprLoc(LocKey(self.rng.choice([0, 1, 2, 7, 1000, 123456789])), n)

    def leaf(self, n):
        if self.loc and self.rng.random() < self.loc:
            return self.loc_(n)
        return exprgen.Gen.leaf(self, n)

    def _try(self, kind, n, depth):
        r = self.rng
        if self.extra and r.random() < self.extra:
            d = depth - 1
            k = r.random()
            if k < 0.45:
                return ExprCompose(self.expr(n, d))
            if k < 0.55 and n >= 2:
                # compose with a nested 1-argument compose
                s = r.randrange(1, n)
                return ExprCompose(ExprCompose(self.expr(s, d)), self.expr(n - s, d))
            op = r.choice(UNINTERPRETED)
            if self.allowed(op):
                return ExprOp(op, *[self.expr(n, d) for _ in range(r.choice([1, 2, 3]))])
        return exprgen.Gen._try(self, kind, n, depth)

    # ---- one expression whose top-level node has the requested kind
    def top(self, kind, depth):
        r = self.rng
        n = self.width()
        d = max(0, depth - 1)
        if kind == "ExprInt":
            return self.int_(n) if r.random() < 0.7 else ExprInt(r.getrandbits(n), n)
        if kind == "ExprId":
            return self.id_(n)
        if kind == "ExprLoc":
            return self.loc_(n)
        if kind == "ExprMem":
            size = r.choice([8, 16, 32, 64, 128, n, 1, 12])
            return ExprMem(self.expr(r.choice(self.ptr_widths), d), size)
        if kind == "ExprSlice":
            m = r.choice([w for w in self.widths if w >= 2] or [8])
            start = r.randrange(0, m)
            stop = r.randrange(start + 1, m + 1)
            return ExprSlice(self.expr(m, d), start, stop)
        if kind == "ExprCompose":
            k = r.choice([1, 1, 2, 2, 3, 4])
            return ExprCompose(*[self.expr(r.choice([1, 3, 8, 16, 32, self.width()]), d)
                                 for _ in range(k)])
        if kind == "ExprCond":
            return ExprCond(self.expr(self.width(), d), self.expr(n, d), self.expr(n, d))
        if kind == "ExprOp":
            for _ in range(20):
                e = exprgen.Gen._try(self, r.random() * 0.66, n, depth)
                if e is not None and e.__class__ is ExprOp:
                    return e
                if r.random() < 0.2:
                    e = self.bool_expr(d)
                    if e.__class__ is ExprOp:
                        return e
            return ExprOp('+', self.expr(n, d), self.expr(n, d))
        if kind == "ExprAssign":
            src = self.expr(n, d)
            k = r.random()
            if k < 0.35:
                dst = self.id_(n)
            elif k < 0.55:
                dst = ExprMem(self.expr(r.choice(self.ptr_widths), d), n)
            else:
                # slice destination: the constructor completes the source
                big = r.choice([w for w in self.widths if w >= n] or [n])
                base = self.id_(big) if r.random() < 0.7 else ExprMem(self.id_(32), big)
                start = r.randrange(0, big - n + 1)
                dst = ExprSlice(base, start, start + n)
            return ExprAssign(dst, src)
        raise ValueError(kind)


KINDS = ["ExprInt", "ExprId", "ExprLoc", "ExprMem", "ExprSlice", "ExprCompose", "ExprCond", "ExprOp",
         "ExprAssign"]

# ---------------------------------------------------------------- structural model

_SIZE1_OPS = frozenset([
    '==', 'parity', 'fcom_c0', 'fcom_c1', 'fcom_c2', 'fcom_c3', 'fxam_c0', 'fxam_c1', 'fxam_c2',
    'fxam_c3', "access_segment_ok", "load_segment_limit_ok", "bcdadd_cf", "ucomiss_zf",
    "ucomiss_pf", "ucomiss_cf", "ucomisd_zf", "ucomisd_pf", "ucomisd_cf",
    '<', '<s', '<u', '<=', '<=s', '<=u', 'pos', 'Spos',
    "FLAG_ADD_CF", "FLAG_SUB_CF", "FLAG_ADD_OF", "FLAG_SUB_OF", "FLAG_EQ", "FLAG_EQ_CMP",
    "FLAG_SIGN_SUB", "FLAG_SIGN_ADD", "FLAG_EQ_AND", "FLAG_EQ_ADDWC", "FLAG_EQ_SUBWC",
    "FLAG_SIGN_ADDWC", "FLAG_SIGN_SUBWC", "FLAG_ADDWC_CF", "FLAG_ADDWC_OF", "FLAG_SUBWC_CF",
    "FLAG_SUBWC_OF"])


def children(e):
    """components of @e that are expressions, in construction order"""
    c = e.__class__
    if c is ExprMem:
        return (e.ptr,)
    if c is ExprSlice:
        return (e.arg,)
    if c is ExprOp or c is ExprCompose:
        return tuple(e.args)
    if c is ExprCond:
        return (e.cond, e.src1, e.src2)
    if c is ExprAssign:
        return (e.dst, e.src)
    return ()


def model_key(e, memo=None):
    """(class name, components...) with sub-expressions replaced by their keys.
    Keys are interned strings so that deep trees stay cheap."""
    if memo is None:
        memo = {}
    k = memo.get(id(e))
    if k is not None:
        return k
    c = e.__class__
    if c is ExprInt:
        k = "I(%d,%d)" % (int(e.arg), e.size)
    elif c is ExprId:
        k = "V(%r,%d)" % (e.name, e.size)
    elif c is ExprLoc:
        k = "L(%d,%d)" % (e.loc_key.key, e.size)
    elif c is ExprMem:
        k = "M(%s,%d)" % (model_key(e.ptr, memo), e.size)
    elif c is ExprSlice:
        k = "S(%s,%d,%d)" % (model_key(e.arg, memo), e.start, e.stop)
    elif c is ExprCompose:
        k = "C(%s)" % ",".join(model_key(a, memo) for a in e.args)
    elif c is ExprCond:
        k = "?(%s,%s,%s)" % (model_key(e.cond, memo), model_key(e.src1, memo), model_key(e.src2, memo))
    elif c is ExprOp:
        k = "O(%r,%s)" % (e.op, ",".join(model_key(a, memo) for a in e.args))
    elif c is ExprAssign:
        k = "=(%s,%s)" % (model_key(e.dst, memo), model_key(e.src, memo))
    else:
        raise TypeError(repr(c))
    memo[id(e)] = k
    return k


def model_size(e):
    """width determined by the components (the monitor's own rules)"""
    c = e.__class__
    if c is ExprSlice:
        return e.stop - e.start
    if c is ExprCompose:
        return sum(model_size(a) for a in e.args)
    if c is ExprCond:
        return model_size(e.src1)
    if c is ExprAssign:
        return model_size(e.dst)
    if c is ExprOp:
        op = e.op
        if op in _SIZE1_OPS:
            return 1
        if op.startswith("signExt_") or op.startswith("zeroExt_"):
            return int(op[8:])
        if op.startswith("fp_to_sint"):
            return int(op[len("fp_to_sint"):])
        if op.startswith("fpconvert_fp"):
            return int(op[len("fpconvert_fp"):])
        if op == "segm":
            return model_size(e.args[1])
        return model_size(e.args[0])
    # Int, Id, Loc, Mem: the size is itself a component
    return e.size


def rebuild(e, int_alias=None):
    """Build the expression again from its components through the public
    constructors (bottom-up, no miasm copy/visit involved).  @int_alias(v, n)
    may return another integer congruent to v modulo 2^n."""
    c = e.__class__
    if c is ExprInt:
        v = int(e.arg)
        if int_alias is not None:
            v = int_alias(v, e.size)
        return ExprInt(v, e.size)
    if c is ExprId:
        return ExprId(e.name, e.size)
    if c is ExprLoc:
        return ExprLoc(LocKey(e.loc_key.key), e.size)
    if c is ExprMem:
        return ExprMem(rebuild(e.ptr, int_alias), e.size)
    if c is ExprSlice:
        return ExprSlice(rebuild(e.arg, int_alias), e.start, e.stop)
    if c is ExprCompose:
        return ExprCompose(*[rebuild(a, int_alias) for a in e.args])
    if c is ExprCond:
        return ExprCond(rebuild(e.cond, int_alias), rebuild(e.src1, int_alias),
                        rebuild(e.src2, int_alias))
    if c is ExprOp:
        return ExprOp(e.op, *[rebuild(a, int_alias) for a in e.args])
    if c is ExprAssign:
        return ExprAssign(rebuild(e.dst, int_alias), rebuild(e.src, int_alias))
    raise TypeError(repr(c))


def subterms(e, out=None, seen=None):
    """all distinct sub-expressions, parents before children"""
    if out is None:
        out, seen = [], set()
    if id(e) in seen:
        return out
    seen.add(id(e))
    out.append(e)
    for ch in children(e):
        subterms(ch, out, seen)
    return out


def postorder(e, out=None, seen=None):
    """all distinct sub-expressions, every one after all of its components"""
    if out is None:
        out, seen = [], set()
    if id(e) in seen:
        return out
    seen.add(id(e))
    for ch in children(e):
        postorder(ch, out, seen)
    out.append(e)
    return out


def with_children(e, new):
    """@e with its expression components replaced by the list @new"""
    c = e.__class__
    if c is ExprMem:
        return ExprMem(new[0], e.size)
    if c is ExprSlice:
        return ExprSlice(new[0], e.start, e.stop)
    if c is ExprCompose:
        return ExprCompose(*new)
    if c is ExprCond:
        return ExprCond(*new)
    if c is ExprOp:
        return ExprOp(e.op, *new)
    if c is ExprAssign:
        return ExprAssign(*new)
    return e


def subst(pattern, bindings):
    """@pattern with every key of @bindings replaced (top-down, no
    re-substitution inside the replacement)"""
    if pattern in bindings:
        return bindings[pattern]
    ch = children(pattern)
    if not ch:
        return pattern
    return with_children(pattern, [subst(c, bindings) for c in ch])


COMMUTATIVE = frozenset(['+', '*', '^', '&', '|'])


def norm(e, memo=None):
    """normal form modulo the argument order of commutative operators"""
    if memo is None:
        memo = {}
    k = memo.get(id(e))
    if k is not None:
        return k
    c = e.__class__
    if c is ExprOp:
        parts = [norm(a, memo) for a in e.args]
        if e.op in COMMUTATIVE:
            parts.sort()
        k = "O(%r,%s)" % (e.op, ",".join(parts))
    elif c is ExprInt or c is ExprId or c is ExprLoc:
        k = model_key(e)
    elif c is ExprMem:
        k = "M(%s,%d)" % (norm(e.ptr, memo), e.size)
    elif c is ExprSlice:
        k = "S(%s,%d,%d)" % (norm(e.arg, memo), e.start, e.stop)
    elif c is ExprCompose:
        k = "C(%s)" % ",".join(norm(a, memo) for a in e.args)
    elif c is ExprCond:
        k = "?(%s,%s,%s)" % (norm(e.cond, memo), norm(e.src1, memo), norm(e.src2, memo))
    elif c is ExprAssign:
        k = "=(%s,%s)" % (norm(e.dst, memo), norm(e.src, memo))
    else:
        raise TypeError(repr(c))
    memo[id(e)] = k
    return k


def plain_ids(e):
    """identifiers of @e (deterministic order, works with bytes names)"""
    out = [s for s in subterms(e) if s.__class__ is ExprId]
    out.sort(key=lambda x: (repr(x.name), x.size))
    return out
