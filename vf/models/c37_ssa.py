"""Helpers of C37: control-flow facts recomputed from the IR itself (edges from
the IRDst expressions, brute-force dominators), CFG shape generator, run
tracker for vf.irinterp.  Nothing here calls miasm's graph algorithms."""


# ------------------------------------------------------------------ graph facts

def locs_of(expr, out=None):
    """location keys an IRDst expression can evaluate to (walks ExprCond only)"""
    from miasm.expression.expression import ExprLoc, ExprCond
    if out is None:
        out = []
    if expr.__class__ is ExprLoc:
        if expr.loc_key not in out:
            out.append(expr.loc_key)
    elif expr.__class__ is ExprCond:
        locs_of(expr.src1, out)
        locs_of(expr.src2, out)
    return out


def succ_of_blocks(blocks, irdst):
    """dict loc_key -> list of successor loc_keys *having a block*, read from the IRDst assignments"""
    succ = {}
    for lk, blk in blocks.items():
        out = []
        for ab in blk:
            for dst, src in ab.items():
                if dst == irdst:
                    out = [t for t in locs_of(src) if t in blocks]   # the last IRDst assignment decides
        succ[lk] = out
    return succ


def reachable(succ, start, removed=None):
    if start == removed:
        return set()
    seen = set([start])
    todo = [start]
    while todo:
        n = todo.pop()
        for s in succ.get(n, ()):
            if s not in seen and s != removed:
                seen.add(s)
                todo.append(s)
    return seen


def dominators(succ, head):
    """dict n -> set of dominators of n (n included): d dominates n iff n is not reachable
    from head once d is removed"""
    reach = reachable(succ, head)
    dom = {n: set([n, head]) for n in reach}
    for d in reach:
        if d == head:
            continue
        still = reachable(succ, head, removed=d)
        for n in reach:
            if n not in still:
                dom[n].add(d)
    return dom


def preds_of(succ):
    pred = {n: [] for n in succ}
    for a, ss in succ.items():
        for b in ss:
            pred.setdefault(b, []).append(a)
    return pred


def is_irreducible(succ, head):
    """the graph without its back edges (target dominates source) still has a cycle"""
    dom = dominators(succ, head)
    fwd = {a: [b for b in succ[a] if not (a in dom and b in dom[a])] for a in succ}
    for n in fwd:
        for s in fwd[n]:
            if n in reachable(fwd, s):
                return True
    return False


def has_cycle(succ):
    for n in succ:
        for s in succ[n]:
            if n in reachable(succ, s):
                return True
    return False


# ------------------------------------------------------------------ shapes

EXIT = "exit"


def gen_shape(rng):
    """-> (succs, tags): succs[k] = list of 1..2 targets (block index or EXIT), block 0 is the head,
    every block reachable from the head and some exit reachable; tags: pattern names built in.
    Rejection sampling: draw, keep if connected."""
    while True:
        n = rng.choice([2, 3, 3, 4, 4, 5, 5, 6, 7])
        succs = []
        forward = rng.random() < 0.6
        for k in range(n):
            if forward:
                pool = list(range(k + 1, n)) * 3 + list(range(0, k + 1)) + [EXIT]
                if k == n - 1:
                    pool += [EXIT] * 3
            else:
                pool = list(range(n)) + [EXIT, EXIT]
            t = [rng.choice(pool)]
            if rng.random() < 0.6:
                x = rng.choice(pool)
                if x not in t:
                    t.append(x)
            succs.append(t)
        tags = set()
        k = rng.random()
        if k < 0.3 and n >= 3:
            # irreducible core: a -> b, a -> c, b -> c, c -> b  (two entries into the cycle b <-> c)
            tags.add("irreducible-core")
            a = rng.randrange(0, n - 2)
            b, c = rng.sample([x for x in range(1, n) if x != a], 2)
            succs[a] = [b, c]
            succs[b] = [c] + ([rng.choice(list(range(n)) + [EXIT])] if rng.random() < 0.5 else [])
            succs[c] = [b, rng.choice(list(range(n)) + [EXIT, EXIT])] if rng.random() < 0.7 else [b]
            succs[b] = dedup(succs[b])
            succs[c] = dedup(succs[c])
        elif k < 0.5:
            tags.add("loop-through-head")
            src = rng.randrange(0, n)
            if 0 not in succs[src]:
                if len(succs[src]) < 2:
                    succs[src].append(0)
                else:
                    succs[src][rng.randrange(2)] = 0
        g = {i: [t for t in succs[i] if t != EXIT] for i in range(n)}
        reach = reachable(g, 0)
        if len(reach) != n:
            continue
        if not any(EXIT in s for s in succs):
            continue
        for s_ in succs:
            rng.shuffle(s_)
        return succs, tags


def dedup(lst):
    out = []
    for x in lst:
        if x not in out:
            out.append(x)
    return out


# ------------------------------------------------------------------ interpreter tracker

class Stop(Exception):
    """raised by the tracker when the block budget is used up (the run is cut *before* a block)"""


class Tracker(object):
    """track callback of irinterp.run: counts blocks, records the path and the time of the last
    assignment of every identifier"""

    def __init__(self, max_blocks):
        self.max_blocks = max_blocks
        self.path = []
        self.clock = 0
        self.def_time = {}

    def __call__(self, loc, idx, assignblk, env):
        if idx == 0:
            if len(self.path) >= self.max_blocks:
                raise Stop()
            self.path.append(loc)
        self.clock += 1
        for dst in assignblk:
            if dst.is_id():
                self.def_time[dst] = self.clock
