"""Independent, struct-based ELF reader used by C43 (shares no code with miasm.loader).

read(data) -> JSON-able dict: ehdr, sections (header fields, name, content digest), segments,
symbols per symbol table, dynamic entries, relocation entries.  Only what the C43 statement names
(sections, segments, symbols, dynamic entries, relocations) is extracted.
"""
import hashlib
import struct

SHT_SYMTAB, SHT_STRTAB, SHT_RELA, SHT_DYNAMIC, SHT_NOBITS, SHT_REL, SHT_DYNSYM = 2, 3, 4, 6, 8, 9, 11


class Bad(Exception):
    pass


def _cstr(blob, off):
    end = blob.find(b"\x00", off)
    if end < 0:
        end = len(blob)
    return blob[off:end]


def read(data, with_content=True):
    if data[:4] != b"\x7fELF":
        raise Bad("magic")
    cls, enc = data[4], data[5]
    if cls not in (1, 2) or enc not in (1, 2):
        raise Bad("class/encoding")
    e = "<" if enc == 1 else ">"
    is64 = cls == 2
    if is64:
        eh = struct.unpack_from(e + "HHIQQQIHHHHHH", data, 16)
    else:
        eh = struct.unpack_from(e + "HHIIIIIHHHHHH", data, 16)
    names = ("type", "machine", "version", "entry", "phoff", "shoff", "flags", "ehsize", "phentsize",
             "phnum", "shentsize", "shnum", "shstrndx")
    ehdr = dict(zip(names, eh))
    ehdr["ident"] = data[:16].hex()
    out = dict(cls=cls * 32, enc=enc, ehdr=ehdr, sections=[], segments=[], symtabs={}, dynamic={}, relocs={})

    secs = []
    for i in range(ehdr["shnum"] if ehdr["shoff"] else 0):
        off = ehdr["shoff"] + i * ehdr["shentsize"]
        if is64:
            f = struct.unpack_from(e + "IIQQQQIIQQ", data, off)
        else:
            f = struct.unpack_from(e + "IIIIIIIIII", data, off)
        secs.append(dict(zip(("name", "type", "flags", "addr", "offset", "size", "link", "info",
                              "addralign", "entsize"), f)))

    def content(s):
        if s["type"] == SHT_NOBITS:
            return b""
        return data[s["offset"]:s["offset"] + s["size"]]

    shstr = content(secs[ehdr["shstrndx"]]) if secs and ehdr["shstrndx"] < len(secs) else b""
    for i, s in enumerate(secs):
        d = dict(s)
        d["name_str"] = _cstr(shstr, s["name"]).decode("latin-1")
        if with_content:
            d["sha"] = hashlib.sha1(content(s)).hexdigest()
        out["sections"].append(d)

    for i in range(ehdr["phnum"]):
        off = ehdr["phoff"] + i * ehdr["phentsize"]
        if is64:
            t, fl, o, va, pa, fs, ms, al = struct.unpack_from(e + "IIQQQQQQ", data, off)
        else:
            t, o, va, pa, fs, ms, fl, al = struct.unpack_from(e + "IIIIIIII", data, off)
        out["segments"].append(dict(type=t, flags=fl, offset=o, vaddr=va, paddr=pa, filesz=fs, memsz=ms,
                                    align=al))

    for i, s in enumerate(secs):
        c = content(s)
        if s["type"] in (SHT_SYMTAB, SHT_DYNSYM):
            strtab = content(secs[s["link"]]) if s["link"] < len(secs) else b""
            ent = 24 if is64 else 16
            syms = []
            for k in range(len(c) // ent):
                if is64:
                    n, info, other, shndx, value, size = struct.unpack_from(e + "IBBHQQ", c, k * ent)
                else:
                    n, value, size, info, other, shndx = struct.unpack_from(e + "IIIBBH", c, k * ent)
                syms.append([_cstr(strtab, n).decode("latin-1"), value, size, info, other, shndx])
            out["symtabs"][str(i)] = syms
        elif s["type"] == SHT_DYNAMIC:
            ent = 16 if is64 else 8
            out["dynamic"][str(i)] = [list(struct.unpack_from(e + ("QQ" if is64 else "II"), c, k * ent))
                                      for k in range(len(c) // ent)]
        elif s["type"] in (SHT_REL, SHT_RELA):
            rela = s["type"] == SHT_RELA
            fmt = e + (("QQq" if rela else "QQ") if is64 else ("IIi" if rela else "II"))
            ent = struct.calcsize(fmt)
            out["relocs"][str(i)] = [list(struct.unpack_from(fmt, c, k * ent)) for k in range(len(c) // ent)]
    return out


def region_of(data, off):
    """name the structure of the (original) file that covers byte `off`"""
    try:
        m = read(data, with_content=False)
    except Exception:
        return "unknown"
    eh = m["ehdr"]
    if off < eh["ehsize"]:
        return "ELF header"
    if eh["phoff"] <= off < eh["phoff"] + eh["phnum"] * eh["phentsize"]:
        return "program header table"
    if eh["shoff"] and eh["shoff"] <= off < eh["shoff"] + eh["shnum"] * eh["shentsize"]:
        return "section header table"
    for s in m["sections"]:
        if s["type"] not in (0, SHT_NOBITS) and s["offset"] <= off < s["offset"] + s["size"]:
            return "section of type %d" % s["type"]
    if off >= len(data):
        return "beyond the end of the file"
    return "bytes not covered by any header or section"
