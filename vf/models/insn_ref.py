"""Reference disassemblers for C17: llvm-mc-14 + llvm-objdump-14 (all ISAs), binutils objdump (x86).

Pipeline (DESIGN C17): candidates are written to one `.s` file, one labelled slot per candidate
(`.byte` for x86/MIPS/PPC, `.inst`/`.inst.n` for AArch64/ARM/Thumb because data directives get a
`$d` mapping symbol there); `llvm-mc -filetype=obj`; `llvm-objdump -d` (and `objdump -d`) restart
decoding at every symbol and print address + consumed bytes + text for every instruction, so the
length of the first instruction of each slot is the difference of two addresses.  x86 prefix-only
lines (`lock`, `rep`, `data16`, segment overrides ...) are merged with the following instruction.

A *view* is one (tool, triple, cpu/features) combination.  The subtarget features are switched on
as far as LLVM allows, and several views per ISA are used where feature sets exclude each other
(ARMv7 vs ARMv8 vs M-profile, MIPS32r2 with/without 64-bit FPU registers vs r6, PowerPC server vs
e500/4xx): an encoding is "valid for the tool" if any view of that tool decodes it.
"""
import os
import re
import shutil
import subprocess

LLVM_MC = shutil.which("llvm-mc-14") or shutil.which("llvm-mc")
LLVM_OBJDUMP = shutil.which("llvm-objdump-14") or shutil.which("llvm-objdump")
GNU_OBJDUMP = shutil.which("objdump")


class RefError(Exception):
    pass


A64_ATTR = ("+v8.8a,+v9.3a,+neon,+fp-armv8,+fullfp16,+fp16fml,+crypto,+aes,+sha2,+sha3,+sm4,+crc,+lse,+lse2,+rdm,"
            "+ras,+rcpc,+rcpc-immo,+dotprod,+mte,+bf16,+i8mm,+ls64,+tme,+mops,+hbc,+rand,+sb,+ssbs,+predres,+spe,"
            "+brbe,+xs,+wfxt,+f32mm,+f64mm,+sve,+sve2,+sve2-aes,+sve2-sm4,+sve2-sha3,+sve2-bitperm,+sme,+sme-f64,"
            "+sme-i64,+pauth,+flagm,+altnzcv,+fptoint,+jsconv,+complxnum,+lor,+pan,+pan-rwv,+vh,+bti,+ccpp,+ccdp,"
            "+ccidx,+dit,+tlb-rmi,+tracev8.4,+am,+amvs,+nv,+sel2,+mpam,+ete,+trbe,+rme,+el3,+el2vmsa,+perfmon,"
            "+uaops,+specrestrict,+fgt,+ecv,+hcx,+spe-eef,+CONTEXTIDREL2")
ARM_V7 = "+neon,+vfp4,+fp16,+d32,+fp64,+hwdiv,+hwdiv-arm,+mp,+trustzone,+virtualization,+dsp,+db,+perfmon"
ARM_V8 = ("+v8.8a,+crypto,+aes,+sha2,+crc,+fp-armv8,+neon,+fullfp16,+fp16fml,+ras,+dotprod,+sb,+bf16,+i8mm,+mp,"
          "+virtualization,+trustzone,+hwdiv,+hwdiv-arm,+dsp,+db,+d32,+fp64,+perfmon")
ARM_V6 = "+vfp2,+fp64,+dsp"
THUMB_M = "+dsp,+fp-armv8d16,+fp64,+fullfp16,+hwdiv,+db"
THUMB_M81 = "+mve.fp,+lob,+dsp,+fp-armv8d16,+fp64,+fullfp16,+hwdiv,+db,+ras,+pacbti,+8msecext"
MIPS_R5 = "+mips32r5,+dsp,+dspr2,+msa,+fp64,+eva,+virt,+mt,+crc,+ginv"
MIPS_R2 = "+mips32r2,+dsp,+dspr2,+mt,+eva,+virt"
PPC_SRV = ("+altivec,+vsx,+htm,+crypto,+direct-move,+power8-vector,+power9-vector,+power10-vector,+isa-v31-instructions,"
           "+prefix-instrs,+mma,+paired-vector-memops,+pcrelative-memops,+isel,+popcntd,+ldbrx,+extdiv,+bpermd,+cmpb,"
           "+fprnd,+fpcvt,+fcpsgn,+icbt,+partword-atomics,+quadword-atomics,+float128,+mfocrf,+privileged,+rop-protect")

# name -> dict(mc=(triple, [directives]), emit=kind, views=[(tool, [objdump args])])
VIEWS = {
    "x86_16": dict(mc="i386", head=[".code16"], emit="byte", slot=16,
                   views=[("llvm", ["--triple=i386-unknown-unknown-code16"]),
                          ("gnu", ["-M", "i8086"])]),
    "x86_32": dict(mc="i386", head=[], emit="byte", slot=16,
                   views=[("llvm", []), ("gnu", ["-M", "i386"])]),
    "x86_64": dict(mc="x86_64", head=[], emit="byte", slot=16,
                   views=[("llvm", []), ("gnu", ["-M", "x86-64"])]),
    "arm": dict(mc="armv7", head=[".arm"], emit="inst32", slot=4,
                views=[("llvm", ["--triple=armv7a", "--mattr=" + ARM_V7]),
                       ("llvm", ["--triple=armv8a", "--mattr=" + ARM_V8]),
                       ("llvm", ["--triple=armv6k", "--mattr=" + ARM_V6]),
                       ("llvm", ["--triple=armv5te", "--mattr=+xscale,+vfp2"])]),
    "armt": dict(mc="thumbv7", head=[".thumb"], emit="inst16x2", slot=4,
                 views=[("llvm", ["--triple=thumbv7a", "--mattr=" + ARM_V7]),
                        ("llvm", ["--triple=thumbv8a", "--mattr=" + ARM_V8]),
                        ("llvm", ["--triple=thumbv7em", "--mattr=" + THUMB_M]),
                        ("llvm", ["--triple=thumbv8.1m.main", "--mattr=" + THUMB_M81])]),
    "aarch64": dict(mc="aarch64", head=[], emit="inst32", slot=4,
                    views=[("llvm", ["--mattr=" + A64_ATTR])]),
    "aarch64_be": dict(mc="aarch64_be", head=[], emit="inst32", slot=4,
                       views=[("llvm", ["--mattr=" + A64_ATTR])]),
    "mips": dict(mc="mips", head=[], emit="byte", slot=4,
                 views=[("llvm", ["--mattr=" + MIPS_R5]), ("llvm", ["--mattr=" + MIPS_R2]),
                        ("llvm", ["--mcpu=mips32r6", "--mattr=+msa,+fp64,+dsp,+eva,+virt,+crc,+ginv"])]),
    "mipsel": dict(mc="mipsel", head=[], emit="byte", slot=4,
                   views=[("llvm", ["--mattr=" + MIPS_R5]), ("llvm", ["--mattr=" + MIPS_R2]),
                          ("llvm", ["--mcpu=mips32r6", "--mattr=+msa,+fp64,+dsp,+eva,+virt,+crc,+ginv"])]),
    "ppc": dict(mc="powerpc", head=[], emit="byte", slot=4,
                views=[("llvm", ["--mcpu=pwr10", "--mattr=" + PPC_SRV]),
                       ("llvm", ["--triple=powerpc64", "--mcpu=pwr10", "--mattr=" + PPC_SRV]),
                       ("llvm", ["--mcpu=e500", "--mattr=+spe,+booke,+isel,+efpu2,+msync"]),
                       ("llvm", ["--mcpu=440", "--mattr=+ppc4xx,+booke,+isel,+msync,+fpu"]),
                       ("llvm", ["--mcpu=a2", "--mattr=+booke,+isel,+icbt,+altivec"]),
                       ("llvm", ["--mcpu=ppc", "--mattr=+altivec,+fpu,+ppc6xx,+fsqrt,+fres,+frsqrte,+stfiwx,+mfocrf"])]),
}

X86_PREFIX_WORDS = set("""lock rep repe repz repne repnz data16 data32 addr16 addr32 cs ds es fs gs ss rex64 rex
    notrack xacquire xrelease bnd wait fwait""".split())
# note: (f)wait is a real one-byte instruction; LLVM prints 9b as "wait": it is never merged (see below)
X86_PREFIX_WORDS -= {"wait", "fwait"}

LABEL_RE = re.compile(r"^[0-9a-f]+ <L(\d+)>:")
LINE_RE = re.compile(r"^\s*([0-9a-f]+):\s+((?:[0-9a-f]{2}\s)+)\s*(.*)$")
BAD_RE = re.compile(r"<unknown>|\(bad\)|^\.(byte|word|short|long|inst)\b|<illegal|invalid")


def _run(cmd, cwd):
    p = subprocess.run(cmd, cwd=cwd, stdout=subprocess.PIPE, stderr=subprocess.PIPE)
    if p.returncode != 0:
        raise RefError("%s failed (%d): %s" % (cmd[0], p.returncode, p.stderr.decode(errors="replace")[-500:]))
    return p.stdout.decode(errors="replace")


def write_asm(view, slots, path):
    """slots: list of byte strings in *memory order* (x86/mips/ppc) or list of ints (inst words)"""
    v = VIEWS[view]
    out = [".text"] + list(v["head"])
    emit = v["emit"]
    for i, s in enumerate(slots):
        out.append("L%d:" % i)
        if emit == "byte":
            out.append(".byte " + ",".join("%d" % c for c in bytearray(s)))
        elif emit == "inst32":
            out.append(".inst 0x%08x" % s)
        else:   # two thumb halfwords
            out.append(".inst.n 0x%04x" % s[0])
            out.append(".inst.n 0x%04x" % s[1])
    out.append("Lend:")
    out.append("")
    with open(path, "w") as fd:
        fd.write("\n".join(out))


def parse_objdump(text, nslots, slot, x86):
    """-> list (per slot) of first-instruction length, or None when the tool rejects the bytes"""
    res = [None] * nslots
    seen = [False] * nslots
    cur = None
    lines = []

    def flush():
        if cur is None or cur >= nslots:
            return
        seen[cur] = True
        res[cur] = first_len(lines, slot, x86)
    for ln in text.splitlines():
        m = LABEL_RE.match(ln)
        if m:
            flush()
            cur = int(m.group(1))
            lines = []
            continue
        if ln.startswith("Disassembly"):
            continue
        if re.match(r"^[0-9a-f]+ <Lend>:", ln):
            flush()
            cur = None
            continue
        if re.match(r"^[0-9a-f]+ <", ln):      # another symbol ($d.N, ...): keep collecting for the slot
            continue
        m = LINE_RE.match(ln)
        if m and cur is not None:
            nbytes = len(m.group(2).split())
            lines.append((int(m.group(1), 16), nbytes, m.group(3).strip()))
    flush()
    if not all(seen):
        raise RefError("objdump output lacks %d of %d slots" % (seen.count(False), nslots))
    return res


def first_len(lines, slot, x86):
    if not lines:
        return None
    base = lines[0][0]
    total = 0
    for addr, nbytes, text in lines:
        if addr != base + total:
            return None                      # hole: should not happen
        toks = text.split()
        total += nbytes
        if BAD_RE.search(text):
            return None
        if x86 and toks and all(t in X86_PREFIX_WORDS for t in toks):
            if total >= slot:
                return None                  # nothing but prefixes
            continue                         # prefix-only line: merge with the following instruction
        return total
    return None


class Reference(object):
    """Runs the views of one ISA on a list of slots; returns {tool: [per slot: set of lengths or empty]}"""

    def __init__(self, view, workdir):
        if view not in VIEWS:
            raise RefError("no reference for %s" % view)
        if not LLVM_MC or not LLVM_OBJDUMP:
            raise RefError("llvm-mc / llvm-objdump not found")
        self.view = view
        self.v = VIEWS[view]
        self.dir = workdir
        self.n = 0

    def tools(self):
        t = []
        for tool, _ in self.v["views"]:
            if tool == "gnu" and not GNU_OBJDUMP:
                continue
            if tool not in t:
                t.append(tool)
        return t

    def run(self, slots):
        self.n += 1
        base = os.path.join(self.dir, "%s_%d" % (self.view, self.n))
        write_asm(self.view, slots, base + ".s")
        _run([LLVM_MC, "-triple=" + self.v["mc"], "-filetype=obj", base + ".s", "-o", base + ".o"], self.dir)
        x86 = self.view.startswith("x86")
        out = {}
        for tool, args in self.v["views"]:
            if tool == "llvm":
                txt = _run([LLVM_OBJDUMP, "-d"] + args + [base + ".o"], self.dir)
            else:
                if not GNU_OBJDUMP:
                    continue
                txt = _run([GNU_OBJDUMP, "-d", "--insn-width=16"] + args + [base + ".o"], self.dir)
            lens = parse_objdump(txt, len(slots), self.v["slot"], x86)
            acc = out.setdefault(tool, [set() for _ in slots])
            for i, l in enumerate(lens):
                if l is not None:
                    acc[i].add(l)
        for ext in (".s", ".o"):
            try:
                os.unlink(base + ext)
            except OSError:
                pass
        return out


# Encodings for which llvm-objdump-14 is known to have no instruction although the architecture
# manuals define one (checked by hand against the manuals, keyed on the *encoding*, never on what
# miasm printed).  A rejection there is the reference's gap, not an over-acceptance: no verdict.
PPC_X31_GAPS = {310: "eciwx", 438: "ecowx", 533: "lswx", 661: "stswx", 512: "mcrxr"}


def ref_gap(view, word):
    """word: the first 32-bit instruction word in architectural order -> reason or None"""
    if view == "ppc":
        if word >> 26 == 31 and ((word >> 1) & 0x3FF) in PPC_X31_GAPS and not word & 1:
            return "ppc " + PPC_X31_GAPS[(word >> 1) & 0x3FF]
    elif view in ("mips", "mipsel"):
        if word >> 26 == 0x11 and (word >> 21) & 0x1F == 0x16:
            return "mips paired-single (fmt=PS) is not implemented by LLVM"
    return None


def verdict(miasm_len, per_tool):
    """per_tool: {tool: set of lengths accepted by its views}.
    -> ('agree', None) | ('ref_invalid', None) | ('ref_length', l) | ('refs_disagree', detail)"""
    states = []
    for tool, lens in sorted(per_tool.items()):
        if miasm_len in lens:
            states.append("ok")
        elif not lens:
            states.append("invalid")
        elif len(lens) == 1:
            states.append(("len", list(lens)[0]))
        else:
            states.append("mixed")
    if "ok" in states:
        return ("agree", None) if all(s == "ok" for s in states) else ("agree_partial", None)
    first = states[0]
    if all(s == first for s in states) and first != "mixed":
        if first == "invalid":
            return "ref_invalid", None
        return "ref_length", first[1]
    return "refs_disagree", states
