"""C18: table-driven x86 encoder (source T of the workload).

Written from the opcode maps of the Intel SDM vol. 2.  It shares nothing with
miasm.  It only has to produce *valid and diverse* encodings: what an encoding
means is decided later by the reference disassembler (operand parsing, state
set-up, defined-flags table) and by the host CPU (the oracle).  A mistake in
this table produces another instruction, never a wrong verdict.
"""

WINDOW = 0x10000000
WINDOW_SIZE = 4096
CODE = 0x20000000
CODE_OFF = 0x800
INSN_ADDR = CODE + CODE_OFF

CC = ['O', 'NO', 'B', 'AE', 'Z', 'NZ', 'BE', 'A', 'S', 'NS', 'PE', 'PO', 'L', 'GE', 'LE', 'G']


def E(mn, op, form, sizes=(16, 32, 64), op8=None, pre=b"", digit=None, imm=None, rm="rm",
      lock=False, m32=True, w=None, grp="int"):
    """One table entry.
    op: opcode bytes for 16/32/64-bit operand size (or the only opcode)
    op8: opcode bytes of the byte form
    form: MR RM M O ZO I D8 D32 MOFFS
    rm: 'rm' (register or memory) | 'mem' | 'reg'
    imm: None | 'ib' | 'iz' | 'iv' | 'iw' | 'iwib'
    sizes: operand sizes selectable by 66 / REX.W (None: no operand size notion, SSE)
    w: for SSE entries: True = needs REX.W
    m32: may be used in the 32-bit experiment (mode-invariant candidate)
    """
    return dict(mn=mn, op=bytes(op), form=form, sizes=tuple(sizes) if sizes else None,
                op8=bytes(op8) if op8 is not None else None, pre=bytes(pre), digit=digit,
                imm=imm, rm=rm, lock=lock, m32=m32, w=w, grp=grp)


def build_table():
    T = []
    alu = ['ADD', 'OR', 'ADC', 'SBB', 'AND', 'SUB', 'XOR', 'CMP']
    for k, mn in enumerate(alu):
        lk = mn != 'CMP'
        T.append(E(mn, [8 * k + 1], 'MR', op8=[8 * k], lock=lk))
        T.append(E(mn, [8 * k + 3], 'RM', op8=[8 * k + 2]))
        T.append(E(mn, [8 * k + 5], 'I', op8=[8 * k + 4], imm='iz'))
        T.append(E(mn, [0x81], 'M', op8=[0x80], digit=k, imm='iz', lock=lk))
        T.append(E(mn, [0x83], 'M', digit=k, imm='ib', lock=lk))
    T.append(E('TEST', [0x85], 'MR', op8=[0x84]))
    T.append(E('TEST', [0xA9], 'I', op8=[0xA8], imm='iz'))
    T.append(E('TEST', [0xF7], 'M', op8=[0xF6], digit=0, imm='iz'))
    T.append(E('MOV', [0x89], 'MR', op8=[0x88]))
    T.append(E('MOV', [0x8B], 'RM', op8=[0x8A]))
    T.append(E('MOV', [0xB8], 'O', op8=[0xB0], imm='iv'))
    T.append(E('MOV', [0xC7], 'M', op8=[0xC6], digit=0, imm='iz'))
    T.append(E('MOV', [0xA1], 'MOFFS', op8=[0xA0], m32=False))
    T.append(E('MOV', [0xA3], 'MOFFS', op8=[0xA2], m32=False))
    T.append(E('XCHG', [0x87], 'MR', op8=[0x86], lock=True))
    T.append(E('XCHG', [0x90], 'O'))
    T.append(E('LEA', [0x8D], 'RM', rm='mem'))
    for d, mn in ((0, 'INC'), (1, 'DEC')):
        T.append(E(mn, [0xFF], 'M', op8=[0xFE], digit=d, lock=True))
    for d, mn in ((2, 'NOT'), (3, 'NEG')):
        T.append(E(mn, [0xF7], 'M', op8=[0xF6], digit=d, lock=True))
    for d, mn in ((4, 'MUL'), (5, 'IMUL'), (6, 'DIV'), (7, 'IDIV')):
        T.append(E(mn, [0xF7], 'M', op8=[0xF6], digit=d, grp='muldiv'))
        T.append(E(mn, [0xF7], 'M', op8=[0xF6], digit=d, grp='muldiv'))
    T.append(E('IMUL', [0x0F, 0xAF], 'RM', grp='muldiv'))
    T.append(E('IMUL', [0x69], 'RM', imm='iz', grp='muldiv'))
    T.append(E('IMUL', [0x6B], 'RM', imm='ib', grp='muldiv'))
    sh = ['ROL', 'ROR', 'RCL', 'RCR', 'SHL', 'SHR', 'SAL', 'SAR']
    for d, mn in enumerate(sh):
        T.append(E(mn, [0xC1], 'M', op8=[0xC0], digit=d, imm='ib', grp='shift'))
        T.append(E(mn, [0xD1], 'M', op8=[0xD0], digit=d, grp='shift'))
        T.append(E(mn, [0xD3], 'M', op8=[0xD2], digit=d, grp='shift'))
        T.append(E(mn, [0xD3], 'M', op8=[0xD2], digit=d, grp='shift'))
    for mn, o in (('SHLD', 0xA4), ('SHRD', 0xAC)):
        T.append(E(mn, [0x0F, o], 'MR', imm='ib', grp='shift'))
        T.append(E(mn, [0x0F, o + 1], 'MR', grp='shift'))
    for mn, o, d in (('BT', 0xA3, 4), ('BTS', 0xAB, 5), ('BTR', 0xB3, 6), ('BTC', 0xBB, 7)):
        T.append(E(mn, [0x0F, o], 'MR', lock=(mn != 'BT'), grp='bit'))
        T.append(E(mn, [0x0F, 0xBA], 'M', digit=d, imm='ib', lock=(mn != 'BT'), grp='bit'))
    T.append(E('BSF', [0x0F, 0xBC], 'RM', grp='bit'))
    T.append(E('BSR', [0x0F, 0xBD], 'RM', grp='bit'))
    T.append(E('POPCNT', [0x0F, 0xB8], 'RM', pre=[0xF3], grp='bit'))
    T.append(E('TZCNT', [0x0F, 0xBC], 'RM', pre=[0xF3], grp='bit'))
    T.append(E('MOVZX', [0x0F, 0xB6], 'RM', grp='mov'))     # r, r/m8
    T.append(E('MOVZX', [0x0F, 0xB7], 'RM', sizes=(32, 64), grp='mov'))
    T.append(E('MOVSX', [0x0F, 0xBE], 'RM', grp='mov'))
    T.append(E('MOVSX', [0x0F, 0xBF], 'RM', sizes=(32, 64), grp='mov'))
    T.append(E('MOVSXD', [0x63], 'RM', sizes=(64,), m32=False, grp='mov'))
    for c, name in enumerate(CC):
        T.append(E('CMOV' + name, [0x0F, 0x40 + c], 'RM', grp='cc'))
        T.append(E('SET' + name, [0x0F, 0x90 + c], 'M', sizes=None, digit=0, grp='cc'))
        T.append(E('J' + name, [0x70 + c], 'D8', sizes=None, grp='br'))
        if c % 4 == 0:
            T.append(E('J' + name, [0x0F, 0x80 + c], 'D32', sizes=None, grp='br'))
    T.append(E('JMP', [0xEB], 'D8', sizes=None, grp='br'))
    T.append(E('JMP', [0xE9], 'D32', sizes=None, grp='br'))
    T.append(E('JRCXZ', [0xE3], 'D8', sizes=None, grp='br'))
    T.append(E('LOOP', [0xE2], 'D8', sizes=None, grp='br'))
    T.append(E('LOOPE', [0xE1], 'D8', sizes=None, grp='br'))
    T.append(E('LOOPNE', [0xE0], 'D8', sizes=None, grp='br'))
    T.append(E('CALL', [0xE8], 'D32', sizes=None, m32=False, grp='br'))
    T.append(E('CALL', [0xFF], 'M', sizes=None, digit=2, m32=False, grp='br'))
    T.append(E('JMP', [0xFF], 'M', sizes=None, digit=4, m32=False, grp='br'))
    T.append(E('RET', [0xC3], 'ZO', sizes=None, m32=False, grp='br'))
    T.append(E('RET', [0xC2], 'ZO', sizes=None, imm='iw', m32=False, grp='br'))
    T.append(E('XADD', [0x0F, 0xC1], 'MR', op8=[0x0F, 0xC0], lock=True))
    T.append(E('CMPXCHG', [0x0F, 0xB1], 'MR', op8=[0x0F, 0xB0], lock=True))
    T.append(E('CMPXCHG8B', [0x0F, 0xC7], 'M', sizes=(32, 64), digit=1, rm='mem', lock=True))
    T.append(E('BSWAP', [0x0F, 0xC8], 'O', sizes=(32, 64)))
    T.append(E('CBW', [0x98], 'ZO'))
    T.append(E('CWD', [0x99], 'ZO'))
    for mn, o in (('LAHF', 0x9F), ('SAHF', 0x9E), ('CLC', 0xF8), ('STC', 0xF9), ('CMC', 0xF5),
                  ('CLD', 0xFC), ('STD', 0xFD), ('NOP', 0x90), ('XLAT', 0xD7)):
        T.append(E(mn, [o], 'ZO', sizes=None, grp='misc'))
    T.append(E('PUSH', [0x50], 'O', sizes=(16, 64), m32=False, grp='stack'))
    T.append(E('POP', [0x58], 'O', sizes=(16, 64), m32=False, grp='stack'))
    T.append(E('PUSH', [0x6A], 'ZO', sizes=(16, 64), imm='ib', m32=False, grp='stack'))
    T.append(E('PUSH', [0x68], 'ZO', sizes=(16, 64), imm='iz', m32=False, grp='stack'))
    T.append(E('PUSH', [0xFF], 'M', sizes=(16, 64), digit=6, m32=False, grp='stack'))
    T.append(E('POP', [0x8F], 'M', sizes=(16, 64), digit=0, m32=False, grp='stack'))
    T.append(E('LEAVE', [0xC9], 'ZO', sizes=None, m32=False, grp='stack'))
    T.append(E('ENTER', [0xC8], 'ZO', sizes=None, imm='iwib', m32=False, grp='stack'))
    for mn, o in (('MOVS', 0xA5), ('CMPS', 0xA7), ('STOS', 0xAB), ('LODS', 0xAD), ('SCAS', 0xAF)):
        for rep in (b"", b"\xf3", b"\xf2"):
            if rep == b"\xf2" and mn not in ('CMPS', 'SCAS'):
                continue
            T.append(E(mn, [o], 'ZO', op8=[o - 1], pre=rep, grp='string'))

    # ---------------- SSE / SSE2 / SSSE3 / SSE4.1 (xmm) ----------------
    def S(mn, pre, op, form='RM', **kw):
        kw.setdefault('grp', 'sse')
        T.append(E(mn, [0x0F] + list(op), form, sizes=None, pre=pre, **kw))

    p66 = [0x66]
    ints = {0x60: 'PUNPCKLBW', 0x61: 'PUNPCKLWD', 0x62: 'PUNPCKLDQ', 0x63: 'PACKSSWB',
            0x64: 'PCMPGTB', 0x65: 'PCMPGTW', 0x66: 'PCMPGTD', 0x67: 'PACKUSWB',
            0x68: 'PUNPCKHBW', 0x69: 'PUNPCKHWD', 0x6A: 'PUNPCKHDQ', 0x6B: 'PACKSSDW',
            0x6C: 'PUNPCKLQDQ', 0x6D: 'PUNPCKHQDQ', 0x74: 'PCMPEQB', 0x75: 'PCMPEQW',
            0x76: 'PCMPEQD', 0xD1: 'PSRLW', 0xD2: 'PSRLD', 0xD3: 'PSRLQ', 0xD4: 'PADDQ',
            0xD5: 'PMULLW', 0xD8: 'PSUBUSB', 0xD9: 'PSUBUSW', 0xDA: 'PMINUB', 0xDB: 'PAND',
            0xDC: 'PADDUSB', 0xDD: 'PADDUSW', 0xDE: 'PMAXUB', 0xDF: 'PANDN', 0xE0: 'PAVGB',
            0xE1: 'PSRAW', 0xE2: 'PSRAD', 0xE3: 'PAVGW', 0xE4: 'PMULHUW', 0xE5: 'PMULHW',
            0xE8: 'PSUBSB', 0xE9: 'PSUBSW', 0xEA: 'PMINSW', 0xEB: 'POR', 0xEC: 'PADDSB',
            0xED: 'PADDSW', 0xEE: 'PMAXSW', 0xEF: 'PXOR', 0xF1: 'PSLLW', 0xF2: 'PSLLD',
            0xF3: 'PSLLQ', 0xF4: 'PMULUDQ', 0xF5: 'PMADDWD', 0xF6: 'PSADBW', 0xF8: 'PSUBB',
            0xF9: 'PSUBW', 0xFA: 'PSUBD', 0xFB: 'PSUBQ', 0xFC: 'PADDB', 0xFD: 'PADDW',
            0xFE: 'PADDD'}
    for o, mn in sorted(ints.items()):
        S(mn, p66, [o])
    for o, mn in sorted({0x00: 'PSHUFB', 0x29: 'PCMPEQQ', 0x37: 'PCMPGTQ', 0x38: 'PMINSB',
                         0x39: 'PMINSD', 0x3A: 'PMINUW', 0x3B: 'PMINUD', 0x3C: 'PMAXSB',
                         0x3D: 'PMAXSD', 0x3E: 'PMAXUW', 0x3F: 'PMAXUD', 0x40: 'PMULLD',
                         0x17: 'PTEST'}.items()):
        S(mn, p66, [0x38, o])
    S('PALIGNR', p66, [0x3A, 0x0F], imm='ib')
    S('PSHUFD', p66, [0x70], imm='ib')
    S('PSHUFHW', [0xF3], [0x70], imm='ib')
    S('PSHUFLW', [0xF2], [0x70], imm='ib')
    for o, ds in ((0x71, ((2, 'PSRLW'), (4, 'PSRAW'), (6, 'PSLLW'))),
                  (0x72, ((2, 'PSRLD'), (4, 'PSRAD'), (6, 'PSLLD'))),
                  (0x73, ((2, 'PSRLQ'), (3, 'PSRLDQ'), (6, 'PSLLQ'), (7, 'PSLLDQ')))):
        for d, mn in ds:
            S(mn, p66, [o], form='M', digit=d, imm='ib', rm='reg')
    S('PINSRW', p66, [0xC4], imm='ib', grp='ssegpr')
    S('PEXTRW', p66, [0xC5], imm='ib', rm='reg', grp='ssegpr')
    S('PEXTRB', p66, [0x3A, 0x14], form='MR', imm='ib', grp='ssegpr')
    S('PEXTRD', p66, [0x3A, 0x16], form='MR', imm='ib', grp='ssegpr')
    S('PEXTRQ', p66, [0x3A, 0x16], form='MR', imm='ib', w=True, m32=False, grp='ssegpr')
    S('PINSRB', p66, [0x3A, 0x20], imm='ib', grp='ssegpr')
    S('PINSRD', p66, [0x3A, 0x22], imm='ib', grp='ssegpr')
    S('PINSRQ', p66, [0x3A, 0x22], imm='ib', w=True, m32=False, grp='ssegpr')
    S('PMOVMSKB', p66, [0xD7], rm='reg', grp='ssegpr')
    S('MOVMSKPS', [], [0x50], rm='reg', grp='ssegpr')
    S('MOVMSKPD', p66, [0x50], rm='reg', grp='ssegpr')
    S('MOVD', p66, [0x6E], grp='ssegpr')
    S('MOVQ', p66, [0x6E], w=True, m32=False, grp='ssegpr')
    S('MOVD', p66, [0x7E], form='MR', grp='ssegpr')
    S('MOVQ', p66, [0x7E], form='MR', w=True, m32=False, grp='ssegpr')
    S('MOVQ', [0xF3], [0x7E], grp='ssemov')
    S('MOVQ', p66, [0xD6], form='MR', grp='ssemov')
    S('MOVDQA', p66, [0x6F], grp='ssemov')
    S('MOVDQA', p66, [0x7F], form='MR', grp='ssemov')
    S('MOVDQU', [0xF3], [0x6F], grp='ssemov')
    S('MOVDQU', [0xF3], [0x7F], form='MR', grp='ssemov')
    for pre, sfx in (([], 'PS'), (p66, 'PD')):
        S('MOVAP' + sfx[1], pre, [0x28], grp='ssemov')
        S('MOVAP' + sfx[1], pre, [0x29], form='MR', grp='ssemov')
        S('MOVUP' + sfx[1], pre, [0x10], grp='ssemov')
        S('MOVUP' + sfx[1], pre, [0x11], form='MR', grp='ssemov')
        S('MOVLP' + sfx[1], pre, [0x12], rm='mem', grp='ssemov')
        S('MOVLP' + sfx[1], pre, [0x13], form='MR', rm='mem', grp='ssemov')
        S('MOVHP' + sfx[1], pre, [0x16], rm='mem', grp='ssemov')
        S('MOVHP' + sfx[1], pre, [0x17], form='MR', rm='mem', grp='ssemov')
        S('UNPCKL' + sfx, pre, [0x14], grp='ssemov')
        S('UNPCKH' + sfx, pre, [0x15], grp='ssemov')
        S('AND' + sfx, pre, [0x54], grp='ssemov')
        S('ANDN' + sfx, pre, [0x55], grp='ssemov')
        S('OR' + sfx, pre, [0x56], grp='ssemov')
        S('XOR' + sfx, pre, [0x57], grp='ssemov')
        S('SHUF' + sfx, pre, [0xC6], imm='ib', grp='ssemov')
    S('MOVHLPS', [], [0x12], rm='reg', grp='ssemov')
    S('MOVLHPS', [], [0x16], rm='reg', grp='ssemov')
    S('MOVSS', [0xF3], [0x10], grp='ssemov')
    S('MOVSS', [0xF3], [0x11], form='MR', grp='ssemov')
    S('MOVSD', [0xF2], [0x10], grp='ssemov')
    S('MOVSD', [0xF2], [0x11], form='MR', grp='ssemov')
    # scalar / packed floating point
    for o, base in ((0x58, 'ADD'), (0x59, 'MUL'), (0x5C, 'SUB'), (0x5E, 'DIV'), (0x5D, 'MIN'),
                    (0x5F, 'MAX'), (0x51, 'SQRT')):
        for pre, sfx in (([], 'PS'), (p66, 'PD'), ([0xF3], 'SS'), ([0xF2], 'SD')):
            S(base + sfx, pre, [o], grp='ssefp')
    for pre, sfx in (([], 'PS'), (p66, 'PD'), ([0xF3], 'SS'), ([0xF2], 'SD')):
        S('CMP' + sfx, pre, [0xC2], imm='ib', grp='ssefp')
    S('UCOMISS', [], [0x2E], grp='ssefp')
    S('UCOMISD', p66, [0x2E], grp='ssefp')
    S('COMISS', [], [0x2F], grp='ssefp')
    S('COMISD', p66, [0x2F], grp='ssefp')
    for pre, mn in (([0xF3], 'CVTSI2SS'), ([0xF2], 'CVTSI2SD')):
        S(mn, pre, [0x2A], grp='ssecvt')
        S(mn, pre, [0x2A], w=True, m32=False, grp='ssecvt')
    for o, t in ((0x2C, 'CVTT'), (0x2D, 'CVT')):
        for pre, sfx in (([0xF3], 'SS2SI'), ([0xF2], 'SD2SI')):
            S(t + sfx, pre, [o], grp='ssecvt')
            S(t + sfx, pre, [o], w=True, m32=False, grp='ssecvt')
    S('CVTSS2SD', [0xF3], [0x5A], grp='ssecvt')
    S('CVTSD2SS', [0xF2], [0x5A], grp='ssecvt')
    S('CVTPS2PD', [], [0x5A], grp='ssecvt')
    S('CVTPD2PS', p66, [0x5A], grp='ssecvt')
    S('CVTDQ2PS', [], [0x5B], grp='ssecvt')
    S('CVTPS2DQ', p66, [0x5B], grp='ssecvt')
    S('CVTTPS2DQ', [0xF3], [0x5B], grp='ssecvt')
    S('CVTDQ2PD', [0xF3], [0xE6], grp='ssecvt')
    S('CVTPD2DQ', [0xF2], [0xE6], grp='ssecvt')
    S('CVTTPD2DQ', p66, [0xE6], grp='ssecvt')
    return T


TABLE = build_table()
GROUP_WEIGHT = dict(int=30, muldiv=8, shift=12, bit=6, mov=3, cc=8, br=5, misc=2, stack=3,
                    string=5, sse=10, ssegpr=3, ssemov=4, ssefp=3, ssecvt=2)


class Encoder(object):
    def __init__(self, rng, mode):
        self.rng = rng
        self.mode = mode
        groups = {}
        for ent in TABLE:
            if mode == 32 and not ent['m32']:
                continue
            groups.setdefault(ent['grp'], []).append(ent)
        self.groups = groups
        self.gnames = sorted(groups)
        self.gweights = [GROUP_WEIGHT[g] for g in self.gnames]

    # -- pieces --------------------------------------------------------
    def _imm(self, n):
        r = self.rng
        k = r.random()
        bits = 8 * n
        if k < 0.35:
            v = r.choice([0, 1, 2, 3, 7, 8, 15, 16, 31, 32, 33, 63, 64, 65, 127, 128, 255,
                          (1 << (bits - 1)) - 1, 1 << (bits - 1), (1 << bits) - 1,
                          (1 << bits) - 2]) & ((1 << bits) - 1)
        else:
            v = r.getrandbits(bits)
        return v.to_bytes(n, "little")

    def _mem(self, reg):
        """ModRM(+SIB+disp) bytes for a memory operand; returns
        (bytes, rex_x, rex_b, fixup) where fixup in (None,'abs','rip') names
        the meaning of the trailing disp32 (patched by the caller)."""
        r = self.rng
        nregs = 16 if self.mode == 64 else 8
        k = r.random()
        if k < 0.06:
            # absolute disp32
            if self.mode == 64:
                return bytes([(reg & 7) << 3 | 4, 0x25]) + b"\0\0\0\0", 0, 0, 'abs'
            if r.random() < 0.6:
                return bytes([(reg & 7) << 3 | 4, 0x25]) + b"\0\0\0\0", 0, 0, 'abs'
            return bytes([(reg & 7) << 3 | 5]) + b"\0\0\0\0", 0, 0, 'abs'
        if k < 0.14 and self.mode == 64:
            return bytes([(reg & 7) << 3 | 5]) + b"\0\0\0\0", 0, 0, 'rip'
        base = r.randrange(nregs)
        if r.random() < 0.12:
            base = 4        # stack-pointer relative operands: the commonest memory operand of compiled code
        use_sib = r.random() < 0.45 or (base & 7) == 4
        dk = r.random()
        if dk < 0.35:
            mod, disp = 0, b""
        elif dk < 0.8:
            mod, disp = 1, r.choice([0, 1, 4, 8, 0x10, 0x7f, 0x80, 0xf0, 0xfc, 0xff,
                                     r.getrandbits(8)]).to_bytes(1, "little")
        else:
            mod = 2
            disp = r.choice([0, 0x100, 0xffffff00, 0xfffffff8, 0x7fffffff, 0x80000000,
                             r.getrandbits(32), r.getrandbits(12)]).to_bytes(4, "little")
        if mod == 0 and (base & 7) == 5:
            mod, disp = 1, b"\0"
        if not use_sib:
            return bytes([mod << 6 | (reg & 7) << 3 | (base & 7)]) + disp, 0, base >> 3, None
        index = r.randrange(nregs)
        scale = r.randrange(4)
        if r.random() < 0.1:
            # no base: [index*scale+disp32]
            mod = 0
            disp = r.choice([WINDOW + 0x400, r.getrandbits(32), 0]).to_bytes(4, "little")
            sib = scale << 6 | (index & 7) << 3 | 5
            return bytes([(reg & 7) << 3 | 4, sib]) + disp, index >> 3, 0, None
        sib = scale << 6 | (index & 7) << 3 | (base & 7)
        return bytes([mod << 6 | (reg & 7) << 3 | 4, sib]) + disp, index >> 3, base >> 3, None

    # -- one encoding --------------------------------------------------
    def gen(self):
        r = self.rng
        g = r.choices(self.gnames, self.gweights)[0]
        ent = r.choice(self.groups[g])
        return self.encode(ent)

    def encode(self, ent):
        """returns (bytes, mnemonic-hint) or None"""
        r = self.rng
        mode = self.mode
        nregs = 16 if mode == 64 else 8
        size = None
        op = ent['op']
        if ent['sizes']:
            sizes = [s for s in ent['sizes'] if mode == 64 or s != 64]
            if ent['op8'] is not None:
                sizes = sizes + [8]
            if not sizes:
                return None
            size = r.choice(sizes)
            if size == 8:
                op = ent['op8']
        prefixes = b""
        rex = 0
        if size == 16:
            prefixes += b"\x66"
        if size == 64 and not (ent['grp'] in ('stack',)):
            rex |= 8
        if ent['w']:
            rex |= 8
        form = ent['form']
        body = b""
        fix = None
        is_mem = False
        if form in ('MR', 'RM', 'M'):
            if ent['rm'] == 'mem':
                is_mem = True
            elif ent['rm'] == 'reg':
                is_mem = False
            else:
                is_mem = r.random() < 0.45
            if form == 'M':
                reg = ent['digit']
            else:
                reg = r.randrange(nregs)
                if r.random() < 0.15:
                    reg = r.choice([0, 1, 2, 4, 5])     # implicit-operand registers, SP/BP
            if reg >> 3:
                rex |= 4
            if is_mem:
                mb, rx, rb, fix = self._mem(reg)
                if rx:
                    rex |= 2
                if rb:
                    rex |= 1
                body = mb
            else:
                rm = r.randrange(nregs)
                if r.random() < 0.15:
                    rm = reg & (nregs - 1) if form != 'M' else r.choice([0, 1, 2])
                if rm >> 3:
                    rex |= 1
                body = bytes([0xC0 | (reg & 7) << 3 | (rm & 7)])
            if size == 8 and mode == 64 and not rex and r.random() < 0.3:
                rex |= 0x40        # plain REX: SPL/BPL/SIL/DIL instead of AH/CH/DH/BH
        elif form == 'O':
            reg = r.randrange(nregs)
            if reg >> 3:
                rex |= 1
            op = op[:-1] + bytes([op[-1] + (reg & 7)])
        elif form == 'MOFFS':
            if mode != 64:
                return None
            body = (WINDOW + 0x40 + r.randrange(WINDOW_SIZE - 0x80)).to_bytes(8, "little")
        imm = b""
        it = ent['imm']
        if it == 'ib':
            imm = self._imm(1)
        elif it == 'iw':
            imm = r.choice([0, 8, 16, 0x20]).to_bytes(2, "little")
        elif it == 'iwib':
            imm = r.choice([0, 8, 16, 0x40]).to_bytes(2, "little") + bytes([r.choice([0, 0, 0, 1])])
        elif it == 'iz':
            n = {8: 1, 16: 2, 32: 4, 64: 4, None: 4}[size]
            imm = self._imm(n)
        elif it == 'iv':
            n = {8: 1, 16: 2, 32: 4, 64: 8}[size]
            imm = self._imm(n)
        if form == 'D8':
            imm = bytes([r.choice([0, 2, 0x10, 0x7f, 0x80, 0xf0, 0xfb, r.getrandbits(8)])])
        elif form == 'D32':
            d = r.choice([0, 0x10, 0x300, -0x20, -0x400, r.randrange(-0x700, 0x700)])
            imm = (d & 0xffffffff).to_bytes(4, "little")
        if ent["lock"] and is_mem and r.random() < 0.2:
            prefixes = b"\xf0" + prefixes
        if mode == 64:
            k = r.random()
            if k < 0.03 and is_mem and fix is None:
                prefixes = b"\x67" + prefixes
            elif k < 0.25 and ent['grp'] == 'string':
                # address-size override on a string instruction: ESI/EDI/ECX instead of RSI/RDI/RCX
                prefixes = b"\x67" + prefixes
            elif k < 0.045:
                prefixes = bytes([r.choice([0x2e, 0x3e, 0x26, 0x36])]) + prefixes
            elif k < 0.07 and rex:
                if not is_mem:
                    rex |= 2          # REX.X without SIB is ignored
        elif rex:
            return None
        out = prefixes + ent['pre']
        if rex:
            out += bytes([0x40 | (rex & 0xf)])
        out += op + body + imm
        if len(out) > 15:
            return None
        if fix is not None:
            # patch the disp32 (last 4 bytes of body)
            pos = len(out) - len(imm) - 4
            acc = 16 if ent['grp'].startswith('sse') else 8
            if r.random() < 0.05:
                tgt = WINDOW + WINDOW_SIZE - r.randrange(0, acc + 1)
            else:
                tgt = WINDOW + 0x40 + (r.randrange(WINDOW_SIZE - 0x80) & ~(0xf if r.random() < 0.7 else 0))
            if fix == 'abs':
                d = tgt
            else:
                d = (tgt - (INSN_ADDR + len(out))) & 0xffffffff
            out = out[:pos] + d.to_bytes(4, "little") + out[pos + 4:]
        return out, ent['mn']
