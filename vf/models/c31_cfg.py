"""C31 helpers: architecture table, machine-code program generator (arch generic,
built from the decoder itself), independent single-instruction re-decoding and
the declarative expectations on the CFG returned by disasmEngine.dis_multiblock.

Trusted: mn.dis (single instruction decoding) and the instruction predicates
breakflow/splitflow/dstflow/is_subcall/dstflow2label/getdstflow of miasm/arch/*.
Under test: miasm/core/asmblock.py (disasmEngine, AsmBlock.split, AsmCFG
pendings/rebuild_edges as used by the engine, _merge_blocks).
"""


def arch_table():
    from miasm.arch.x86.arch import mn_x86
    from miasm.arch.arm.arch import mn_arm, mn_armt
    from miasm.arch.aarch64.arch import mn_aarch64
    from miasm.arch.mips32.arch import mn_mips32
    from miasm.arch.msp430.arch import mn_msp430
    from miasm.arch.ppc.arch import mn_ppc
    from miasm.arch.mep.arch import mn_mep
    from miasm.arch.sh4.arch import mn_sh4
    return [
        ("x86_16", mn_x86, 16, 1), ("x86_32", mn_x86, 32, 1), ("x86_64", mn_x86, 64, 1),
        ("arml", mn_arm, 'l', 4), ("armb", mn_arm, 'b', 4),
        ("armtl", mn_armt, 'l', 2), ("armtb", mn_armt, 'b', 2),
        ("aarch64l", mn_aarch64, 'l', 4), ("aarch64b", mn_aarch64, 'b', 4),
        ("mips32l", mn_mips32, 'l', 4), ("mips32b", mn_mips32, 'b', 4),
        ("msp430", mn_msp430, None, 2), ("ppc32b", mn_ppc, 'b', 4),
        ("mepb", mn_mep, 'b', 2), ("mepl", mn_mep, 'l', 2), ("sh4", mn_sh4, None, 2),
    ]


UNDEC = "undecodable"      # Disasm_Exception / IOError: the documented signals
CRASH = "decoder_crash"    # any other exception of mn.dis


class Decoder(object):
    """Independent single-instruction decoding of one buffer (cached)."""

    def __init__(self, mn, attrib, data, base):
        from miasm.core.bin_stream import bin_stream_str
        self.mn, self.attrib = mn, attrib
        self.data, self.base = data, base
        self.bs = bin_stream_str(data, base_address=base)
        self.cache = {}

    def fresh(self, offset):
        """new instruction object (or UNDEC/CRASH, exception)"""
        from miasm.core.utils import Disasm_Exception
        try:
            return self.mn.dis(self.bs, self.attrib, offset), None
        except (Disasm_Exception, IOError) as exc:
            return UNDEC, exc
        except Exception as exc:  # decoder defect, not the engine's
            return CRASH, exc

    def at(self, offset):
        if offset not in self.cache:
            self.cache[offset] = self.fresh(offset)[0]
        return self.cache[offset]

    def ok(self, offset):
        return self.at(offset) not in (UNDEC, CRASH)


def flow_info(dec, offset, ldb):
    """flow facts of the instruction decoded at @offset, from a fresh decoding
    (dstflow2label mutates the instruction): dict or None if undecodable"""
    ins, _ = dec.fresh(offset)
    if ins in (UNDEC, CRASH):
        return None
    info = dict(breakflow=bool(ins.breakflow()), splitflow=bool(ins.splitflow()),
                dstflow=bool(ins.dstflow()), subcall=bool(ins.is_subcall()),
                delayslot=ins.delayslot, l=ins.l, dsts=[], ins=ins)
    if info["breakflow"] and info["dstflow"]:
        ins.dstflow2label(ldb)
        for dst in ins.getdstflow(ldb):
            if dst.is_loc():
                info["dsts"].append(ldb.get_location_offset(dst.loc_key))
    return info


class Pools(object):
    """Instruction encodings found by random search through the decoder."""

    def __init__(self, mn, attrib, align, rng, tries=1500):
        from miasm.core.locationdb import LocationDB
        self.mn, self.attrib, self.align = mn, attrib, align
        self.plain, self.branch, self.call, self.stop = [], [], [], []
        ldb = LocationDB()
        base = 0x1000
        for _ in range(tries):
            raw = bytes(rng.getrandbits(8) for _ in range(16))
            dec = Decoder(mn, attrib, raw, base)
            ins = dec.at(base)
            if ins in (UNDEC, CRASH):
                continue
            enc = raw[:ins.l]
            if not ins.breakflow():
                if ins.splitflow():
                    continue
                self.plain.append(enc)
                continue
            try:
                fi = flow_info(dec, base, ldb)
            except Exception:
                continue
            if fi["dsts"]:
                (self.call if fi["subcall"] else self.branch).append(enc)
            else:
                self.stop.append(enc)

    def usable(self):
        return len(self.plain) >= 5


def _patched(mn, attrib, enc, offset, target):
    """architecture specific bit patches of the displacement field (all candidates are
    verified by decoding, so a wrong patch is only a lost candidate)"""
    name = mn.__name__
    out = []
    if name == "mn_x86" and len(enc) == 2 and (0x70 <= enc[0] <= 0x7F or enc[0] in (0xEB, 0xE0, 0xE1, 0xE2, 0xE3)):
        rel = target - (offset + 2)
        if -128 <= rel <= 127:
            out.append(bytes([enc[0], rel & 0xFF]))
    if name in ("mn_mips32", "mn_ppc") and len(enc) == 4:
        big = (attrib == 'b')
        word = int.from_bytes(enc, "big" if big else "little")
        if name == "mn_mips32":
            out.append(((word & 0xFC000000) | ((target >> 2) & 0x3FFFFFF)).to_bytes(4, "big" if big else "little"))
            out.append(((word & 0xFFFF0000) | (((target - offset - 4) >> 2) & 0xFFFF)).to_bytes(4, "big" if big else "little"))
        else:
            out.append(((word & 0xFC000003) | ((target - offset) & 0x03FFFFFC)).to_bytes(4, "big"))
            out.append(((word & 0xFFFF0003) | ((target - offset) & 0xFFFC)).to_bytes(4, "big"))
    return out


def retarget(mn, attrib, enc, offset, target):
    """Re-encode the direct branch @enc placed at @offset so that it goes to
    @target, keeping its length.  Returns bytes or None."""
    from miasm.core.locationdb import LocationDB
    from miasm.core.bin_stream import bin_stream_str
    from miasm.expression.expression import ExprLoc
    ldb = LocationDB()
    cands = []
    try:
        ins = mn.dis(bin_stream_str(enc + b"\x00" * 16, base_address=offset), attrib, offset)
        name0 = ins.name
        ins.dstflow2label(ldb)
        idx = [i for i, a in enumerate(ins.args) if a.is_loc()]
        if len(idx) == 1:
            idx = idx[0]
            ins.args[idx] = ExprLoc(ldb.get_or_create_offset_location(target), ins.args[idx].size)
            ins.args = ins.resolve_args_with_symbols(ldb)
            ins.fixDstOffset()
            cands = list(mn.asm(ins, ldb))
    except Exception:
        pass
    try:
        cands += _patched(mn, attrib, enc, offset, target)
    except Exception:
        pass
    for cand in cands:
        if len(cand) != len(enc):
            continue
        # keep only encodings that really go to the target
        try:
            chk = mn.dis(bin_stream_str(cand + b"\x00" * 16, base_address=offset), attrib, offset)
            if not (chk.breakflow() and chk.dstflow()) or chk.l != len(enc):
                continue
            l2 = LocationDB()
            chk.dstflow2label(l2)
            offs = [l2.get_location_offset(d.loc_key) for d in chk.getdstflow(l2) if d.is_loc()]
        except Exception:
            continue
        if target in offs:
            return cand
    return None


def gen_program(pools, rng, base):
    """Structured code: a sequence of slots, direct branches re-targeted to slot
    starts (forward/backward), to the middle of instructions, to themselves, to
    their fall-through, or outside.  Returns (bytes, slot offsets, stats)."""
    nslots = rng.randint(6, 40)
    slots = []
    for _ in range(nslots):
        r = rng.random()
        if r < 0.68 or not pools.branch:
            kind, enc = "plain", rng.choice(pools.plain)
        elif r < 0.88:
            kind, enc = "branch", rng.choice(pools.branch)
        elif r < 0.94 and pools.call:
            kind, enc = "call", rng.choice(pools.call)
        elif pools.stop and r < 0.97:
            kind, enc = "stop", rng.choice(pools.stop)
        else:
            kind, enc = "plain", rng.choice(pools.plain)
        slots.append([kind, enc])
    offs = []
    cur = base
    for kind, enc in slots:
        offs.append(cur)
        cur += len(enc)
    end = cur
    stats = dict(retarget_ok=0, retarget_failed=0, mid=0, back=0, fwd=0, selfj=0, nextj=0, outside=0)
    out = []
    for i, (kind, enc) in enumerate(slots):
        if kind in ("branch", "call"):
            r = rng.random()
            if r < 0.56 and i > 0:
                j = rng.randrange(0, i)
                for _ in range(4):      # prefer the inside of a straight-line run
                    if j > 0 and slots[j - 1][0] == "plain":
                        break
                    j = rng.randrange(0, i)
                tgt, what = offs[j], "back"
            elif r < 0.78 and i + 1 < nslots:
                tgt, what = offs[rng.randrange(i + 1, nslots)], "fwd"
            elif r < 0.84:
                j = rng.randrange(nslots)
                ln = len(slots[j][1])
                tgt, what = offs[j] + (rng.randrange(1, ln) if ln > 1 else 0), "mid"
            elif r < 0.89:
                tgt, what = offs[i], "selfj"
            elif r < 0.95:
                tgt, what = offs[i] + len(enc), "nextj"
            else:
                tgt, what = end + rng.choice([0, 4, 64]), "outside"
            new = retarget(pools.mn, pools.attrib, enc, offs[i], tgt)
            if new is not None:
                enc = new
                stats["retarget_ok"] += 1
                stats[what] += 1
            else:
                stats["retarget_failed"] += 1
        out.append(enc)
    return b"".join(out), offs, stats


# --------------------------------------------------------------------------
# snapshot / traces for the bbl_simplifier sub-check

def snapshot(asmcfg, is_direct_jump):
    """plain-data copy of a CFG: loc_key -> (items, successors).  items are
    (offset, bytes) of the instructions that are not direct jumps, or a BAD
    marker."""
    from miasm.core.asmblock import AsmBlockBad
    snap = {}
    for lk in asmcfg.nodes():
        blk = asmcfg.loc_key_to_block(lk)
        if blk is None:
            items = [("NOBLOCK", str(asmcfg.loc_db.get_location_offset(lk)))]
        elif isinstance(blk, AsmBlockBad):
            items = [("BAD", str(asmcfg.loc_db.get_location_offset(lk)))]
        else:
            items = [(line.offset, bytes(line.b)) for line in blk.lines if not is_direct_jump(line)]
        snap[lk] = (items, sorted(asmcfg.successors(lk), key=str))
    return snap


def traces(snap, start, maxitems=10, maxblocks=48, maxpaths=4000):
    """set of instruction sequences (first @maxitems kept instructions) over
    all paths from @start; None when a bound was hit (comparison skipped)."""
    out = set()
    stack = [(start, (), 0)]
    npaths = 0
    while stack:
        node, seq, nb = stack.pop()
        if nb > maxblocks:
            return None
        items, succs = snap[node]
        seq = seq + tuple(items)
        if len(seq) >= maxitems:
            out.add(seq[:maxitems])
            continue
        if not succs:
            out.add(seq + ("END",))
            continue
        for s in succs:
            npaths += 1
            if npaths > maxpaths:
                return None
            stack.append((s, seq, nb + 1))
    return out
