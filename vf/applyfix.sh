#!/bin/sh
# development aid: apply a reviewed fix candidate to /repo as one "fix:" commit
# usage: applyfix.sh <diff> "<title>"
set -e
f="$1"; title="$2"
cd /repo
git apply --check "$f"
git apply "$f"
body=$(grep '^#' "$f" | sed 's/^# \{0,1\}//' | sed 's/^C[0-9][0-9]: //')
git commit -qam "fix: $title

$body"
echo "$(git log --oneline | head -1)  <- $(basename $f)"
