"""Small helpers shared by the checks."""
import os
import random
import resource
import signal
import sys
import warnings


class CaseTimeout(Exception):
    pass


def _alarm(signum, frame):
    raise CaseTimeout()


def install_case_timer():
    signal.signal(signal.SIGALRM, _alarm)


class time_limit(object):
    """with time_limit(seconds): ...   raises CaseTimeout (CPU+wall: ITIMER_REAL)"""

    def __init__(self, seconds):
        self.seconds = seconds

    def __enter__(self):
        signal.setitimer(signal.ITIMER_REAL, self.seconds)

    def __exit__(self, *a):
        signal.setitimer(signal.ITIMER_REAL, 0)
        return False


def limit_memory(gib=6):
    lim = int(gib * (1 << 30))
    try:
        resource.setrlimit(resource.RLIMIT_AS, (lim, lim))
    except (ValueError, OSError):
        pass


def rng_for(params):
    return random.Random("%s/%s/%s" % (params.get("seed", 0), params.get("shard", 0),
                                       params.get("salt", "")))


def quiet():
    warnings.simplefilter("ignore")
    import logging
    logging.disable(logging.WARNING)
    sys.setrecursionlimit(10000)


def mk_shards(n, seed, tier, per_shard, scale=1.0, hashseeds=(0, 1), **extra):
    """n shards of `per_shard` cases; even shards run with PYTHONHASHSEED=0,
    odd shards with a seed-derived hash seed (order dependence explored)."""
    out = []
    for i in range(n):
        hs = hashseeds[i % len(hashseeds)]
        if hs:
            hs = 1 + (seed * 7919 + i) % 4000000
        d = dict(seed=seed, shard=i, nshards=n, tier=tier, n=max(1, int(per_shard * scale)),
                 hashseed=hs)
        d.update(extra)
        out.append(d)
    return out


def short(e, n=300):
    s = str(e)
    return s if len(s) <= n else s[:n] + "..."
