"""Concrete interpreter of miasm IR graphs (independent of miasm's symbolic
engine): parallel assignment semantics, byte memory over refsem.Env, events.

  res = run(ircfg, loc_db, start, env, max_steps=...)

Events recorded in res.events:
  ("w", addr, nbytes, value)        memory write (little or big endian per env)
  ("c", opname, (args...))          uninterpreted call-like operator evaluated
"""
import hashlib

from miasm.expression.expression import ExprInt, ExprId, ExprLoc, ExprMem, ExprCond, LocKey

from vf import refsem


class Result(object):
    __slots__ = ("status", "exit", "events", "steps", "path", "env", "detail", "last_def")

    def __init__(self):
        self.status = None      # exit | budget | undef | unsupported | overlap
        self.exit = None        # LocKey or int address
        self.events = []
        self.steps = 0
        self.path = []
        self.env = None
        self.detail = None
        self.last_def = {}

    def writes(self):
        return [e for e in self.events if e[0] == "w"]


def call_hook_factory(events):
    def hook(expr, args):
        op = expr.op
        h = hashlib.blake2b(repr((op, args, expr.size)).encode(), digest_size=32).digest()
        if op.startswith("call_"):
            events.append(("c", op, tuple(args)))
        return int.from_bytes(h, "little")
    return hook


def resolve_dst(dst, env, hook, loc_db):
    """-> LocKey or int address"""
    while isinstance(dst, ExprCond):
        c = refsem.evaluate(dst.cond, env, hook)
        dst = dst.src1 if c else dst.src2
    if isinstance(dst, ExprLoc):
        return dst.loc_key
    v = refsem.evaluate(dst, env, hook)
    lk = loc_db.get_offset_location(v)
    return lk if lk is not None else v


def run(ircfg, loc_db, start, env, max_steps=400, irdst=None, phi_mode=False, track=None):
    """Execute from location @start (LocKey) until a location without block.
    @env: refsem.Env whose .ids holds the register file and .mem the memory.
    @phi_mode: give 'Phi' operators the meaning "argument defined most recently".
    @track: optional callable(loc_key, index, assignblk, env) called before each assignblock."""
    res = Result()
    res.env = env
    irdst = irdst if irdst is not None else ircfg.IRDst
    hook_calls = call_hook_factory(res.events)
    def_time = res.last_def
    clock = [0]

    def hook(expr, args):
        if phi_mode and expr.op == "Phi":
            best, bt = None, -1
            for a, v in zip(expr.args, args):
                t = def_time.get(a, -1) if isinstance(a, ExprId) else -1
                if t > bt:
                    best, bt = v, t
            if best is None:
                best = args[0]
            return best
        return hook_calls(expr, args)

    cur = start
    while True:
        block = ircfg.blocks.get(cur) if isinstance(cur, LocKey) else None
        if block is None:
            res.status = "exit"
            res.exit = cur
            return res
        res.path.append(cur)
        nxt = None
        for idx, assignblk in enumerate(block):
            if res.steps >= max_steps:
                res.status = "budget"
                return res
            res.steps += 1
            if track is not None:
                track(cur, idx, assignblk, env)
            try:
                new_regs = []
                new_mem = []
                for dst, src in assignblk.items():
                    if isinstance(dst, ExprMem):
                        addr = refsem.evaluate(dst.ptr, env, hook)
                        val = refsem.evaluate(src, env, hook)
                        new_mem.append((addr, dst.size, val, dst.ptr.size))
                    elif dst == irdst:
                        nxt = resolve_dst(src, env, hook, loc_db)
                    else:
                        new_regs.append((dst, refsem.evaluate(src, env, hook)))
            except refsem.Undef as exc:
                res.status = "undef"
                res.detail = str(exc)
                return res
            except refsem.Unsupported as exc:
                res.status = "unsupported"
                res.detail = str(exc)
                return res
            # overlapping stores inside one assignblock have no defined order
            touched = set()
            for addr, size, val, psize in new_mem:
                for i in range((size + 7) // 8):
                    b = (addr + i) & ((1 << psize) - 1)
                    if b in touched:
                        res.status = "overlap"
                        return res
                    touched.add(b)
            clock[0] += 1
            for dst, val in new_regs:
                env.ids[dst] = val
                def_time[dst] = clock[0]
            for addr, size, val, psize in sorted(new_mem):
                nbytes = (size + 7) // 8
                amask = (1 << psize) - 1
                for i in range(nbytes):
                    if env.big_endian:
                        byte = (val >> (8 * (nbytes - 1 - i))) & 0xff
                    else:
                        byte = (val >> (8 * i)) & 0xff
                    env.mem[(addr + i) & amask] = byte
                res.events.append(("w", addr, nbytes, val))
        if nxt is None:
            res.status = "unsupported"
            res.detail = "block %s without IRDst" % cur
            return res
        cur = nxt
