"""Runner: tiers, seeds, sharding over worker subprocesses, watchdogs,
classification against known_findings.json, evidence writer, verdict lines.

    ./check C07 [--tier quick|thorough] [--replay file] [--jobs N] [--keep]

Exit codes: 0 held (possibly with KNOWN-FINDING lines), 1 violation,
2 inconclusive (watchdog, missing tool, observation floor not reached,
harness error).  A wall-clock watchdog never produces a violation.
"""
import argparse
import glob
import hashlib
import importlib
import json
import os
import shutil
import subprocess
import sys
import tempfile
import time

ROOT = os.path.dirname(os.path.dirname(os.path.abspath(__file__)))
REPO = os.environ.get("VERIF_REPO", "/repo")
PY = "/venv/bin/python"
SCRATCH_BASE = os.environ.get("VERIF_SCRATCH", "/var/tmp")


def find_check(pid):
    pid = pid.upper()
    pat = os.path.join(ROOT, "vf", "checks", pid.lower() + "_*.py")
    files = glob.glob(pat)
    if len(files) != 1:
        raise SystemExit("no unique check module for %s (%s)" % (pid, files))
    name = os.path.basename(files[0])[:-3]
    return "vf.checks." + name


def load_known(pid):
    path = os.path.join(ROOT, "known_findings.json")
    known, fixed = {}, []
    if os.path.exists(path):
        data = json.load(open(path))
        for ent in data.get("findings", []):
            if ent.get("property") != pid:
                continue
            if ent.get("status") == "known":
                known[ent["key"]] = ent
            else:
                fixed.append(ent)
    return known, fixed


class Pool(object):
    """Minimal subprocess pool (multiprocessing.Pool hangs when a child dies)."""

    def __init__(self, jobs):
        self.jobs = jobs

    def run(self, tasks):
        """tasks: list of dict(cmd, env, timeout, out, log); returns list of
        (task, returncode or 'timeout', wall)"""
        pending = list(enumerate(tasks))
        running = []
        results = [None] * len(tasks)
        while pending or running:
            while pending and len(running) < self.jobs:
                idx, task = pending.pop(0)
                logf = open(task["log"], "wb")
                proc = subprocess.Popen(task["cmd"], env=task["env"], stdout=logf,
                                        stderr=subprocess.STDOUT, cwd=task.get("cwd", ROOT),
                                        stdin=subprocess.DEVNULL)
                running.append((idx, task, proc, time.time(), logf))
            still = []
            for idx, task, proc, t0, logf in running:
                rc = proc.poll()
                now = time.time()
                if rc is None and now - t0 > task["timeout"]:
                    proc.kill()
                    proc.wait()
                    logf.close()
                    results[idx] = (task, "timeout", now - t0)
                elif rc is None:
                    still.append((idx, task, proc, t0, logf))
                else:
                    logf.close()
                    results[idx] = (task, rc, now - t0)
            running = still
            if running:
                time.sleep(0.02)
        return results


def tail(path, n=3000):
    try:
        data = open(path, "rb").read()
        return data[-n:].decode(errors="replace")
    except OSError:
        return ""


def main(argv=None):
    ap = argparse.ArgumentParser()
    ap.add_argument("pid")
    ap.add_argument("--tier", default=os.environ.get("VERIF_TIER", "quick"),
                    choices=["quick", "thorough"])
    ap.add_argument("--replay")
    ap.add_argument("--jobs", type=int, default=int(os.environ.get("VERIF_JOBS", "16")))
    ap.add_argument("--keep", action="store_true", help="keep the scratch directory")
    ap.add_argument("--scale", type=float, default=float(os.environ.get("VERIF_SCALE", "1")),
                    help="multiply workload sizes (development aid)")
    args = ap.parse_args(argv)
    pid = args.pid.upper()
    seed = int(os.environ.get("VERIF_SEED", "0") or 0)
    t_start = time.time()

    modname = find_check(pid)
    sys.path.insert(0, ROOT)
    mod = importlib.import_module(modname)
    chk = mod.CHECK
    assert chk["id"] == pid

    scratch = tempfile.mkdtemp(prefix="verif-%s-" % pid, dir=SCRATCH_BASE)
    rc = 2
    try:
        rc = run_check(pid, mod, chk, modname, args, seed, scratch, t_start)
    finally:
        if not args.keep:
            shutil.rmtree(scratch, ignore_errors=True)
        else:
            print("scratch kept: %s" % scratch)
    sys.exit(rc)


def run_check(pid, mod, chk, modname, args, seed, scratch, t_start):
    from vf import deps
    tier = args.tier
    inconclusive = []

    base_env = dict(os.environ)
    for k in ("LD_PRELOAD", "PYTHONSTARTUP"):
        base_env.pop(k, None)
    tmpdir = os.path.join(scratch, "tmp")
    os.makedirs(tmpdir)
    base_env["TMPDIR"] = tmpdir
    base_env["VERIF_SCRATCH_DIR"] = scratch
    base_env["VERIF_REPO"] = REPO
    base_env["MIASM_VERIF"] = "1"
    base_env["PYTHONDONTWRITEBYTECODE"] = "1"
    pypath = [ROOT]
    if os.path.realpath(REPO) != "/repo":
        # mutation trials: a scratch copy of the repository replaces the editable install
        pypath.insert(0, REPO)
    if chk.get("deps"):
        pypath.append(deps.ensure())

    overlay_info = None
    if chk.get("overlay"):
        from vf import overlay
        mode = chk["overlay"]
        if isinstance(mode, dict):
            mode = mode.get(tier, "plain")
        try:
            overlay_info = overlay.build(scratch, REPO, asan=(mode == "asan"))
        except overlay.BuildError as exc:
            # the working tree does not build: nothing can be observed
            print(str(exc)[-3000:])
            return finish(pid, chk, tier, seed, t_start, {}, [], [], ["overlay build failed"],
                          {}, args)
        pypath.insert(0, overlay_info["path"])
        base_env.update(overlay_info["env"])
    base_env["PYTHONPATH"] = os.pathsep.join(pypath)

    # ---- shards
    if args.replay:
        rep = json.load(open(args.replay))
        shards = [rep["shard"]]
    else:
        shards = mod.shards(tier, seed, args.scale)
    tasks = []
    for i, sh in enumerate(shards):
        pfile = os.path.join(scratch, "shard%d.in.json" % i)
        ofile = os.path.join(scratch, "shard%d.out.json" % i)
        lfile = os.path.join(scratch, "shard%d.log" % i)
        json.dump(sh, open(pfile, "w"))
        env = dict(base_env)
        env["PYTHONHASHSEED"] = str(sh.get("hashseed", 0))
        wtmp = os.path.join(tmpdir, "w%d" % i)
        os.makedirs(wtmp)
        env["TMPDIR"] = wtmp
        if overlay_info and overlay_info.get("asan"):
            env["LD_PRELOAD"] = overlay_info["libasan"]
            env["ASAN_OPTIONS"] = ("detect_leaks=0:abort_on_error=0:halt_on_error=1:"
                                   "exitcode=97:log_path=%s" % os.path.join(scratch, "asan%d" % i))
            env["UBSAN_OPTIONS"] = ("print_stacktrace=1:halt_on_error=1:exitcode=98:"
                                    "log_path=%s" % os.path.join(scratch, "ubsan%d" % i))
        tasks.append(dict(cmd=[PY, "-m", "vf.worker", modname, pfile, ofile], env=env,
                          timeout=sh.get("timeout", chk.get("timeout", {}).get(tier, 900)),
                          out=ofile, log=lfile, shard=sh, idx=i))
    results = Pool(args.jobs).run(tasks)

    # ---- aggregate
    counters = {}
    distinct = set()
    distinct_overflow = False
    samples = []
    failures = []  # dict(key, what, witness, shard)
    evaluations = 0
    extra = {}
    for task, rc, wall in results:
        sh = task["shard"]
        out = None
        if os.path.exists(task["out"]):
            try:
                out = json.load(open(task["out"]))
            except ValueError:
                out = None
        san_logs = glob.glob(os.path.join(scratch, "asan%d.*" % task["idx"])) + \
            glob.glob(os.path.join(scratch, "ubsan%d.*" % task["idx"]))
        if san_logs:
            txt = "".join(tail(p, 4000) for p in san_logs[:3])
            key = "sanitizer:" + sanitizer_key(txt)
            failures.append(dict(key=key, what="sanitizer report", witness=txt[:6000], shard=sh))
        if rc == "timeout":
            handler = getattr(mod, "on_timeout", None)
            if handler is not None:
                res = handler(sh, out, tail(task["log"]))
                if res:
                    failures.append(dict(key=res["key"], what=res["what"],
                                         witness=res.get("witness"), shard=sh))
                    continue
            inconclusive.append("worker %d watchdog after %.0fs" % (task["idx"], wall))
            continue
        if out is None:
            # the worker died without writing a result
            log = tail(task["log"])
            if isinstance(rc, int) and (rc < 0 or rc in (97, 98, 134, 139)) and chk.get("crash_is_violation"):
                if not san_logs:
                    failures.append(dict(key="worker_crash:rc=%s" % rc, what="worker process died",
                                         witness=log, shard=sh))
            else:
                inconclusive.append("worker %d died rc=%s: %s" % (task["idx"], rc, log[-1500:]))
            continue
        if out.get("harness_error"):
            inconclusive.append("worker %d harness error: %s" % (task["idx"], out["harness_error"][-1500:]))
        evaluations += out.get("evaluations", 0)
        for k, v in out.get("counters", {}).items():
            counters[k] = counters.get(k, 0) + v
        for h in out.get("distinct", []):
            distinct.add(h)
        distinct_overflow |= bool(out.get("distinct_overflow"))
        for s in out.get("samples", []):
            if len(samples) < 12:
                samples.append(s)
        for f in out.get("failures", []):
            f["shard"] = sh
            failures.append(f)
        for k, v in out.get("extra", {}).items():
            extra.setdefault(k, v)

    if not args.replay:
        floors = getattr(mod, "floors", None)
        if floors is not None and not inconclusive:
            for msg in floors(tier, counters, evaluations):
                inconclusive.append("floor: " + msg)

    cov = dict(evaluations=evaluations, distinct_nontrivial=len(distinct),
               rule=chk["rule"], samples=samples, counters=counters,
               shards=len(shards), exhaustive=bool(chk.get("exhaustive", {}).get(tier, False)))
    if distinct_overflow:
        cov["distinct_note"] = "per-shard distinct sets were capped; count is a lower bound"
    cov.update(extra)
    return finish(pid, chk, tier, seed, t_start, cov, failures, shards, inconclusive, counters, args)


def sanitizer_key(txt):
    import re
    m = re.search(r"(ERROR: AddressSanitizer: [\w-]+|runtime error: [^\n]{0,80})", txt)
    loc = re.search(r"(\w+\.c):(\d+)", txt)
    k = m.group(1) if m else "report"
    k = re.sub(r"0x[0-9a-f]+", "X", k)
    k = re.sub(r"\d+", "N", k)
    if loc:
        k += "@" + loc.group(1)
    return k


def finish(pid, chk, tier, seed, t_start, cov, failures, shards, inconclusive, counters, args):
    known, fixed = load_known(pid)
    by_key = {}
    for f in failures:
        by_key.setdefault(f["key"], []).append(f)
    violations = []
    known_seen = {}
    for key, fl in sorted(by_key.items()):
        if key in known:
            known_seen[key] = len(fl)
        else:
            violations.append((key, fl))

    os.makedirs(os.path.join(ROOT, "evidence"), exist_ok=True)
    if not cov:
        cov = dict(evaluations=0, distinct_nontrivial=0, rule=chk["rule"], samples=[])
    cov["known_findings_observed"] = known_seen
    cov["failing_keys"] = sorted(by_key)[:50]
    cov["inconclusive_reasons"] = inconclusive[:10]
    verdict = "violated" if violations else ("inconclusive" if inconclusive else "held")
    cov["verdict"] = verdict
    ev = dict(property_id=pid, tier=tier, seed=seed, level=chk["level"], coverage=cov,
              assumptions=chk.get("assumptions", []), wall_s=round(time.time() - t_start, 2),
              violations=len(violations))
    if not args.replay:
        with open(os.path.join(ROOT, "evidence", pid + ".json"), "w") as fd:
            json.dump(ev, fd, indent=1, sort_keys=True, default=str)

    for key, ent in sorted(known.items()):
        print("KNOWN-FINDING: property=%s %s -- %s (observed %d times in this run)" % (
            pid, key, ent.get("what", ""), known_seen.get(key, 0)))
    rdir = os.path.join(ROOT, "replays")
    for key, fl in violations:
        os.makedirs(rdir, exist_ok=True)
        h = hashlib.md5(key.encode()).hexdigest()[:10]
        path = os.path.join(rdir, "%s-%s.json" % (pid, h))
        with open(path, "w") as fd:
            json.dump(dict(property=pid, key=key, what=fl[0].get("what"), count=len(fl),
                           witness=fl[0].get("witness"), shard=fl[0].get("shard"),
                           tier=tier, seed=seed, more=[x.get("witness") for x in fl[1:4]]),
                      fd, indent=1, default=str)
        print("VIOLATION property=%s replay=%s" % (pid, path))
        print("  key=%s count=%d what=%s" % (key, len(fl), str(fl[0].get("what"))[:400]))
    summary = {k: counters[k] for k in sorted(counters)[:40]}
    print("%s tier=%s seed=%d verdict=%s evaluations=%s distinct=%s wall=%.1fs" % (
        pid, tier, seed, verdict, cov.get("evaluations"), cov.get("distinct_nontrivial"),
        time.time() - t_start))
    if os.environ.get("VERIF_VERBOSE"):
        print(json.dumps(summary, indent=1))
    if violations:
        return 1
    if inconclusive:
        for r in inconclusive[:10]:
            print("INCONCLUSIVE property=%s reason=%s" % (pid, r.replace("\n", " | ")[:1500]))
        return 2
    return 0


if __name__ == "__main__":
    main()
